"""Worker: run the real NuCS engine (interpreted, NUMBA_DISABLE_JIT=1) and record Layer-A traces.

No source hooks: the four registries are patched in place and a few module attributes are wrapped
(backtrack, reset, decrease_max/increase_min, solve_one, and the names the shaving module imports).
argv: job.json out.ndjson ;  job = {"items": [{"id", "P", "cfg", "mode": "solve"|"min"|"max", "var"}], "probes": bool}

Events (one dict each, "k" = kind, "d" = nesting depth inside a shaving pass):
  S  shaving pass starts            {top, in, en}
  P  consistency pass ended         {alg, top, in, en, st, top2, out, en2, stack, ens, f:[[status,changed]], probes, stats, bc?, trunc?}
  V  variable heuristic answered    {dom}
  B  value heuristic branched       {dom, top, top2, levels, ens, events, upd}
  R  backtrack() returned           {ok, top2, box, en}
  Y  solution yielded to the user   {sol, stats}
  D  enumeration finished           {stats}
  I  solve_one returned (optimise)  {sol|null, stats}
  Z  reset                          {box, en}
  T  objective tightened            {var, val, dir, box}
  O  optimise returned              {sol|null, stats}
  X  exception                      {type, msg}
  H  confirmed hang                 {lines}
"""
import json
import os
import signal
import sys
import time

import numpy as np

assert os.environ.get("NUMBA_DISABLE_JIT"), "the Layer-A recorder runs the interpreted engine"

import nucs.heuristics.heuristics as hh  # noqa: E402
import nucs.propagators.propagators as pp  # noqa: E402
import nucs.solvers.backtrack_solver as bs  # noqa: E402
import nucs.solvers.bound_consistency_algorithm as bca  # noqa: E402
import nucs.solvers.consistency_algorithms as ca  # noqa: E402
import nucs.solvers.shaving_consistency_algorithm as sh  # noqa: E402
from nucs.solvers.backtrack_solver import BacktrackSolver  # noqa: E402
from nucs.solvers.bound_consistency_algorithm import bound_consistency_algorithm as REAL_BC  # noqa: E402

import problems  # noqa: E402

NAMES = problems.alg_names()
EVENT_CAP = 2500
LINE_CAP = 6_000_000


class _Timeout(Exception):
    pass


class _Abort(Exception):
    pass


def _alarm(*a):
    raise _Timeout()


class Ctx:
    ev = []
    solver = None
    depth = 0          # consistency-algorithm nesting (0 outside, 1 in outer pass, 2 in nested BC)
    shaving = 0        # > 0 while inside a shaving pass
    passes = []        # stack of per-pass filter lists
    probing = False
    mode = "solve"
    objvar = -1
    lastsol = None
    bound = 10 ** 9
    want_probes = True
    calls = None       # optional: distinct propagator calls met (for the call corpus)
    cut = False
    nested_probes = False
    strict = False     # also record the mechanism-level events (pop, filter output, queue snapshots) for MechTrace
    tt = 0             # the stack level the recorder believes is current (resumes are recognised by the state)
    pending = False    # an incumbent was returned: the next pass starts the search for a better one
    base = None        # the statistics when the recorded call made its first consistency pass (None: not yet known)
    prior_stats = None # the statistics right after the earlier, unobserved call on the same solver object


C = Ctx


def _top():
    return int(C.solver.stacks_top[0])


def _box(level=None):
    s = C.solver
    return s.shr_domains_stack[_top() if level is None else level].tolist()


def _en(level=None):
    s = C.solver
    return [bool(x) for x in s.not_entailed_propagators_stack[_top() if level is None else level]]


DEPTH_IDX = problems.STAT_LABELS.index([l for l in problems.STAT_LABELS if "DEPTH" in l.upper()][0])


def _stats():
    """The statistics as returned to the user, relative to what they were when the recorded call began (C.base): the
    additive counters minus their baseline, the depth (a maximum) as it is."""
    st = problems.user_stats(C.solver)
    if C.base is None:
        return st
    return [x if i == DEPTH_IDX else x - b for i, (x, b) in enumerate(zip(st, C.base))]


def _emit(e):
    if len(C.ev) >= EVENT_CAP:
        C.cut = True
        raise _Abort("event cap")
    C.ev.append(e)


def _d():
    return 1 if C.shaving else 0


def _sync():
    """A level popped without going through the wrapped backtrack() is still a resume: recognise it by the state."""
    t = _top()
    while C.tt > t:
        C.tt -= 1
        _emit({"k": "R", "d": _d(), "ok": True, "top2": C.tt, "box": _box(C.tt), "en": _en(C.tt), "same": True,
               "synth": True, "q": [bool(x) for x in C.solver.triggered_propagators]})
    C.tt = t


# ----------------------------------------------------------------------------- wrappers


def wrap_cd(i, f):
    def g(domains, params):
        if C.probing or C.solver is None or not C.passes:
            return f(domains, params)
        cur = C.passes[-1]
        now = _box()
        if cur["f"] and cur["f"][-1][1] is None:
            cur["f"][-1][1] = now != cur["pre"]
        cur["pre"] = now
        if len(cur["f"]) >= C.bound:
            cur["trunc"] = True
            raise _Abort("pass bound")
        inbox = domains.tolist() if C.calls is not None else None
        st = int(f(domains, params))
        cur["f"].append([st, None])
        if C.strict:
            _emit({"k": "f", "d": _d(), "st": st, "out": domains.tolist()})
        if C.calls is not None and len(C.calls) < 400:
            key = (NAMES.get(i, str(i)), tuple(int(x) for x in params), tuple(map(tuple, inbox)))
            if key not in C.calls:
                C.calls[key] = (st, domains.tolist())
        return st

    g.__wrapped__ = f
    return g


def _probe(a, p):
    b = list(a)
    for k in (0, 10, 11, 12, 13, 14):
        b[k] = a[k].copy()
    b[14][:] = False
    b[14][p] = True
    b[9] = np.zeros_like(a[9])   # no wake-ups: exactly ONE execution of p through the engine's own view / write-back
    top = int(b[13][0])
    before = b[10][top].tolist()
    C.probing = True
    try:
        st = int(REAL_BC(*b))
    except Exception as e:  # noqa
        return [int(p), -7, False]
    finally:
        C.probing = False
    return [int(p), st, b[10][top].tolist() == before]


def _plain_bc(a):
    """Plain bound consistency on a copy of the state at the start of a shaving pass."""
    b = list(a)
    for k in (0, 10, 11, 12, 13, 14):
        b[k] = a[k].copy()
    C.probing = True
    try:
        st = int(REAL_BC(*b))
    except Exception:  # noqa
        return None
    finally:
        C.probing = False
    return [st, b[10][int(b[13][0])].tolist()]


def wrap_ca(alg, f):
    def g(*a):
        if C.probing or C.solver is None:
            return f(*a)
        if C.base is None:
            # first consistency pass of the recorded call: nothing has been counted for it yet.  On a solver object that
            # was used before, the counters are either still the totals of the earlier call (cumulative statistics) or
            # all back to zero (statistics per call) - the "K" event lets the specification reject a mixture
            C.base = problems.user_stats(C.solver)
            if C.prior_stats is not None:
                _emit({"k": "K", "d": 0, "base": list(C.base), "prior": list(C.prior_stats)})
        if C.pending and not C.strict:
            # the restart after an incumbent, READ FROM THE STATE when the next search begins (not from a hook inside
            # reset / decrease_max / increase_min: an optimisation loop may prepare the new root elsewhere and install
            # it at once): root level, every constraint enabled, initial domains except the tightened objective
            C.pending = False
            C.tt = _top()
            val = C.lastsol[C.objvar] if C.lastsol is not None and 0 <= C.objvar < len(C.lastsol) else 0
            _emit({"k": "N", "d": 0, "var": int(C.objvar), "val": int(val), "dir": C.mode, "box": _box(), "en": _en(),
                   "top": _top()})
        C.pending = False
        _sync()
        top = _top()
        e = {"k": "P", "alg": alg, "top": top, "in": _box(), "en": _en(), "trunc": False, "bc": [],
             "q0": [bool(x) for x in a[14]]}
        outer_shaving = alg >= 1 and C.shaving == 0      # shaving, or a registered custom algorithm that calls BC itself
        if outer_shaving:
            e["bc"] = _plain_bc(a) or []
            _emit({"k": "S", "d": 0, "alg": alg, "top": top, "in": e["in"], "en": e["en"], "q0": e["q0"]})
            C.shaving += 1
            e["d"] = 0
        else:
            e["d"] = _d()
        rec = {"f": [], "pre": None, "trunc": False}
        if alg == 0:
            C.passes.append(rec)
            if C.strict:
                _emit({"k": "p0", "d": _d()})
        try:
            r = int(f(*a))
        except _Abort:
            if alg == 0:
                C.passes.pop()
                if rec["trunc"]:
                    e.update({"st": -1, "top2": _top(), "out": _box(), "en2": _en(), "stack": [], "ens": [],
                              "f": [[x[0], bool(x[1])] for x in rec["f"]], "probes": [], "stats": _stats(), "trunc": True,
                              "q": []})
                    C.ev.append(e)
            if outer_shaving:
                C.shaving -= 1
            raise
        except BaseException:
            if alg == 0:
                C.passes.pop()
            if outer_shaving:
                C.shaving -= 1
            raise
        if alg == 0:
            C.passes.pop()
            if rec["f"] and rec["f"][-1][1] is None:
                rec["f"][-1][1] = _box(top) != rec["pre"] if _top() == top else True
        if outer_shaving:
            C.shaving -= 1
        if alg >= 1:
            _sync()
        top2 = _top()
        C.tt = top2
        s = C.solver
        e.update({"st": r, "top2": top2, "out": _box(), "en2": _en(),
                  "stack": s.shr_domains_stack[:top2].tolist(),
                  "ens": [[bool(x) for x in row] for row in s.not_entailed_propagators_stack[:top2]],
                  "f": [[x[0], bool(x[1])] for x in rec["f"]], "probes": [], "stats": _stats(),
                  "q": [bool(x) for x in a[14]]})
        if r != 0 and (e["d"] == 0 or C.nested_probes) and C.want_probes:
            e["probes"] = [_probe(a, p) for p in range(len(a[14])) if a[11][top2][p]]
        _emit(e)
        return r

    g.__wrapped__ = f
    return g


def wrap_vh(i, f):
    def g(params, decision_domains, sds, top):
        if not C.probing and C.solver is not None:
            _sync()
        r = f(params, decision_domains, sds, top)
        if not C.probing and C.solver is not None:
            _emit({"k": "V", "d": _d(), "dom": int(r)})
        return r

    g.__wrapped__ = f
    return g


def wrap_dh(f):
    def g(params, sds, nes, upd, top, dom_idx):
        if C.probing or C.solver is None:
            return f(params, sds, nes, upd, top, dom_idx)
        _sync()
        t0 = int(top[0])
        ev = int(f(params, sds, nes, upd, top, dom_idx))
        t1 = int(top[0])
        C.tt = t1
        _emit({"k": "B", "d": _d(), "dom": int(dom_idx), "top": t0, "top2": t1, "levels": sds[t0:t1 + 1].tolist(),
               "ens": [[bool(x) for x in row] for row in nes[t0:t1 + 1]], "events": ev,
               "upd": [[int(x[0]), int(x[1])] for x in upd[t0:t1]]})
        return ev

    g.__wrapped__ = f
    return g


def wrap_bt(f):
    """backtrack(): observed through the solver's own state (stack top, domains, flags, queue) - nothing is read from
    the arguments of this internal routine."""
    def g(*a, **kw):
        if C.probing or C.solver is None:
            return f(*a, **kw)
        _sync()
        t0 = _top()
        below = None
        if t0 > 0:
            below = (_box(t0 - 1), _en(t0 - 1))
        ok = bool(f(*a, **kw))
        e = {"k": "R", "d": _d(), "ok": ok, "top2": _top(), "box": _box(), "en": _en(),
             "same": below is None or (below[0] == _box() and below[1] == _en()), "synth": False,
             "q": [bool(x) for x in C.solver.triggered_propagators]}
        C.tt = _top()
        _emit(e)
        return ok

    g.__wrapped__ = f
    return g


def wrap_reset(f):
    def g(*a):
        r = f(*a)
        if C.solver is not None:
            C.tt = _top()
            if C.strict:      # mechanism-level (drift-only) event; Layer A reads the restart from the state ("N")
                _emit({"k": "Z", "d": 0, "box": _box(), "en": _en(), "top": _top()})
        return r

    return g


def wrap_tighten(f, direction):
    """The tightening after an incumbent.  Nothing is read from the arguments of the internal routine (its signature
    is not part of any property): the objective variable is the one of the run, the incumbent value is the one the
    recorder saw when solve_one returned - only the resulting domains are observed."""
    def g(*a, **kw):
        r = f(*a, **kw)
        if C.solver is not None and C.strict:
            val = C.lastsol[C.objvar] if C.lastsol is not None and 0 <= C.objvar < len(C.lastsol) else 0
            _emit({"k": "T", "d": 0, "var": int(C.objvar), "val": int(val), "dir": direction, "box": _box()})
        return r

    return g


def wrap_solve_one(f):
    def g(*a):
        r = f(*a)
        if C.solver is not None and C.mode != "solve":
            C.lastsol = None if r is None else [int(x) for x in r]
            C.pending = r is not None       # the next consistency pass, if any, starts the search for a better solution
            _emit({"k": "I", "d": 0, "none": r is None, "sol": [] if r is None else [int(x) for x in r], "stats": _stats()})
        return r

    return g


def wrap_pop(f):
    """Mechanism-level (strict, drift-only) events: emitted when the internal signature is the expected one, skipped
    silently otherwise - a refactored signature must never turn into a verdict or a crash of the recorder."""
    def g(*a, **kw):
        r = f(*a, **kw)
        if C.strict and not C.probing and C.solver is not None:
            try:
                _emit({"k": "q", "d": _d(), "r": int(r), "trig": [bool(x) for x in a[0]]})
            except Exception:  # noqa
                pass
        return r

    return g


def wrap_add(f):
    def g(*a, **kw):
        r = f(*a, **kw)
        if C.strict and not C.probing and C.solver is not None:
            try:
                _emit({"k": "a", "d": _d(), "dom": int(a[3]), "events": int(a[4]), "trig": [bool(x) for x in a[0]]})
            except Exception:  # noqa
                pass
        return r

    return g


def install():
    pp.COMPUTE_DOMAINS_FCTS[:] = [wrap_cd(i, f) for i, f in enumerate(pp.COMPUTE_DOMAINS_FCTS)]
    ca.CONSISTENCY_ALG_FCTS[:] = [wrap_ca(i, f) for i, f in enumerate(ca.CONSISTENCY_ALG_FCTS)]
    hh.VAR_HEURISTIC_FCTS[:] = [wrap_vh(i, f) for i, f in enumerate(hh.VAR_HEURISTIC_FCTS)]
    hh.DOM_HEURISTIC_FCTS[:] = [wrap_dh(f) for f in hh.DOM_HEURISTIC_FCTS]
    # module-level names of the engine are wrapped WHEN THEY EXIST: a refactoring that renames or inlines one of them
    # loses an optional observation (a "V" event inside shaving, the strict mechanism events), never the run itself -
    # resumes are recognised by the state, the passes and the branches through the registries above
    def opt(mod, name, wrapper):
        if hasattr(mod, name):
            setattr(mod, name, wrapper(getattr(mod, name)))

    opt(sh, "bound_consistency_algorithm", lambda f: wrap_ca(0, f))
    opt(sh, "min_value_dom_heuristic", wrap_dh)
    opt(sh, "max_value_dom_heuristic", wrap_dh)
    opt(sh, "first_not_instantiated_var_heuristic", lambda f: wrap_vh(0, f))
    if hasattr(bs, "backtrack"):
        bt = wrap_bt(bs.backtrack)
        bs.backtrack = bt
        if hasattr(sh, "backtrack"):
            sh.backtrack = bt
    opt(bca, "pop_propagator", wrap_pop)
    opt(bs, "add_propagators", wrap_add)
    opt(sh, "add_propagators", wrap_add)
    opt(bs, "reset", wrap_reset)
    opt(bs, "decrease_max", lambda f: wrap_tighten(f, "min"))
    opt(bs, "increase_min", lambda f: wrap_tighten(f, "max"))
    opt(bs, "solve_one", wrap_solve_one)


# ----------------------------------------------------------------------------- running one item


def pass_bound(P):
    m = len(P["props"])
    S = sum(hi - lo + 1 for lo, hi in P["doms"])
    return 8 * m * (S + 2)


def custom_ca(name):
    """Register a shipped custom consistency algorithm (once) behind the recording wrapper; returns its index."""
    if name in custom_ca.done:
        return custom_ca.done[name]
    if name == "golomb":
        import nucs.examples.golomb.golomb_problem as gp
        gp.bound_consistency_algorithm = wrap_ca(0, gp.bound_consistency_algorithm)
        idx = ca.register_consistency_algorithm(gp.golomb_consistency_algorithm)
        ca.CONSISTENCY_ALG_FCTS[idx] = wrap_ca(2, ca.CONSISTENCY_ALG_FCTS[idx])
        custom_ca.done[name] = idx
        return idx
    raise ValueError(name)


custom_ca.done = {}


def make_solver(P, cfg):
    prob = problems.to_nucs(P)
    kw = {}
    if cfg.get("vparams") is not None:
        kw["var_heuristic_params"] = cfg["vparams"]
    if cfg.get("dparams") is not None:
        kw["dom_heuristic_params"] = cfg["dparams"]
    if cfg.get("decision") is not None:
        kw["decision_domains"] = cfg["decision"]
    ca_idx = custom_ca(cfg["custom_ca"]) if cfg.get("custom_ca") else cfg.get("ca", 0)
    s = BacktrackSolver(prob, consistency_alg_idx=ca_idx, var_heuristic_idx=cfg.get("vh", 0),
                        dom_heuristic_idx=cfg.get("dh", 0), stack_max_height=cfg.get("height", 64),
                        log_level="ERROR", **kw)
    return prob, s


def drive(item):
    """Run one item with the wrappers active; fills C.ev."""
    P, cfg, mode = item["P"], item["cfg"], item.get("mode", "solve")
    prob, s = make_solver(P, cfg)
    C.ev = []
    C.depth = 0
    C.shaving = 0
    C.passes = []
    C.probing = False
    C.cut = False
    C.base = None
    C.prior_stats = None
    C.pending = False
    C.mode = mode
    C.objvar = int(item.get("var", -1)) if item.get("var") is not None else -1
    C.lastsol = None
    C.bound = 4 * pass_bound(P)
    # history quantifier: the SAME solver object has been used before (an exhaustive or a partial enumeration, an
    # optimisation), unobserved; the recorded call is then judged like any other call - from the initial state of the
    # problem.  The counters are zeroed in between, so that the statistics clauses count the recorded call only.
    prior = item.get("prior")
    if prior:
        try:
            if prior[0] == "solve":
                for k, _ in enumerate(s.solve()):
                    if k > 3000:
                        break
            elif prior[0] == "partial":
                g0 = s.solve()
                next(g0, None)
                if prior[1] % 2:
                    next(g0, None)
            elif prior[0] == "min":
                s.minimize(prior[1])
            else:
                s.maximize(prior[1])
        except Exception:  # noqa - an earlier call that fails is the business of the run that records it
            pass
        C.prior_stats = problems.user_stats(s)
    C.solver = s
    C.tt = int(s.stacks_top[0])
    limit = item.get("limit")
    try:
        if mode == "solve":
            n = 0
            for sol in s.solve():
                _sync()
                _emit({"k": "Y", "d": 0, "sol": [int(x) for x in sol], "stats": _stats(), "top": _top()})
                n += 1
                if limit is not None and n >= limit:
                    break
            else:
                _emit({"k": "D", "d": 0, "stats": _stats()})
        else:
            r = s.minimize(item["var"]) if mode == "min" else s.maximize(item["var"])
            _emit({"k": "O", "d": 0, "none": r is None, "sol": [] if r is None else [int(x) for x in r], "stats": _stats()})
    except _Abort:
        pass
    except _Timeout:
        raise
    except Exception as e:  # noqa
        C.ev.append({"k": "X", "d": 0, "type": type(e).__name__, "msg": str(e)[:100], "origin": _origin(e)})
    finally:
        C.solver = None
    return prob


def _origin(e):
    """Where an exception comes from: "harness" (a frame of the recorder itself is the innermost one: machinery failure),
    "raise" (a raise statement of the library: a deliberate report / refusal), "other" (anything else, e.g. an indexing
    error inside the library)."""
    import linecache
    import traceback
    frames = traceback.extract_tb(e.__traceback__)
    if not frames:
        return "other"
    last = frames[-1]
    here = os.path.dirname(os.path.abspath(__file__))
    if os.path.abspath(last.filename).startswith(here):
        return "harness"
    line = (last.line or linecache.getline(last.filename, last.lineno)).strip()
    return "raise" if line.startswith("raise ") or line == "raise" else "other"


def run_item(item, interp_timeout=20.0):
    signal.setitimer(signal.ITIMER_REAL, interp_timeout)
    hung = False
    try:
        prob = drive(item)
    except _Timeout:
        hung = True
        C.solver = None
        prob = None
    finally:
        signal.setitimer(signal.ITIMER_REAL, 0)
    slow = False
    if hung:
        # deterministic confirmation: same run under a line-count cap
        count = [0]

        def tracer(frame, event, arg):
            if event == "line":
                count[0] += 1
                if count[0] > LINE_CAP:
                    raise _Timeout()
            return tracer

        sys.settrace(tracer)
        try:
            prob = drive(item)
            slow = True  # finished under the cap: merely slow, not a verdict
        except _Timeout:
            C.solver = None
            C.ev = C.ev[:60]
            C.ev.append({"k": "H", "d": 0, "lines": count[0]})
        finally:
            sys.settrace(None)
    if prob is None:
        prob, _ = make_solver(item["P"], item["cfg"])
    Pd = problems.from_nucs(prob, NAMES)
    Pd["trig"] = prob.triggers.tolist()
    nd = len(Pd["doms"])
    cfgx = {"ca": 2 if item["cfg"].get("custom_ca") else item["cfg"].get("ca", 0), "vh": item["cfg"].get("vh", 0), "dh": item["cfg"].get("dh", 0),
            "height": item["cfg"].get("height", 64), "decision": item["cfg"].get("decision") or list(range(nd)),
            "vparams": item["cfg"].get("vparams") or [], "dparams": item["cfg"].get("dparams") or [],
            "mode": item.get("mode", "solve"), "var": item.get("var", 0), "ent": 1, "sched": 0}
    cfg_out = {k: item["cfg"].get(k) for k in ("ca", "vh", "dh", "height")}
    if item["cfg"].get("custom_ca"):
        cfg_out["ca"] = 2
    out = {"id": item["id"], "P": Pd, "cfgx": cfgx, "cfg": cfg_out,
           "mode": item.get("mode", "solve"), "var": item.get("var", -1), "limit": item.get("limit", -1),
           "cut": bool(C.cut), "slow": slow, "ev": C.ev,
           "depth0": int(C.base[DEPTH_IDX]) if C.base is not None else 0}
    return out


def main():
    job = json.load(open(sys.argv[1]))
    signal.signal(signal.SIGALRM, _alarm)
    install()
    C.want_probes = job.get("probes", True)
    C.nested_probes = job.get("nested_probes", False)
    C.strict = job.get("strict", False)
    if job.get("calls"):
        C.calls = {}
    t0 = time.time()
    with open(sys.argv[2], "w") as out:
        for item in job["items"]:
            tr = run_item(item)
            out.write(json.dumps(tr, separators=(",", ":")) + "\n")
    if C.calls is not None:
        with open(sys.argv[2] + ".calls", "w") as fh:
            for k, ((alg, params, inbox), (st, outbox)) in enumerate(C.calls.items()):
                fh.write(json.dumps({"alg": alg, "params": list(params), "inbox": [list(b) for b in inbox],
                                     "status": st, "outbox": outbox}) + "\n")
    sys.stderr.write(f"rec_engine: {len(job['items'])} items in {time.time()-t0:.1f}s\n")


if __name__ == "__main__":
    main()
