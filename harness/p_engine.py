"""C01 C02 C03 C04 C08 C09 C10 C17: engine-level properties judged by TLC on Layer-A traces of the real engine."""
from common import Report
import engine
import mc

ASSUME = [
    "design level: spec/NucsMech.tla (mechanism mirror with contract-level propagators) is model-checked exhaustively "
    "on problem families whose static data (sorted order, trigger matrix) is exported from the real Problem.init(); "
    "a model counterexample is concretised on the real engine before it counts",
    "the judge is TLC evaluating spec/NucsAbs.tla; the reference relations come from spec/Constraints.tla",
    "observation is done in interpreted mode (NUMBA_DISABLE_JIT=1, same source as the compiled mode) by registry "
    "interposition from outside the repository; compiled-mode equality is C15's subject",
    "solution oracle = brute force over the root box (<= 700 points); greatest-fixpoint oracle on boxes <= 400 points",
]


def _replay_any(prop, prefixes, path):
    """Replay a replay file: engine-shaped cases are re-recorded and re-judged, call-shaped ones are re-executed;
    cases of the other stages make the whole check run again with the recorded tier and seed."""
    import json
    import os
    import tempfile
    data = json.load(open(path))
    eng = [v for v in data["violations"] if {"P", "cfg", "mode"} <= set(v["case"])]
    cal = [v for v in data["violations"] if {"alg", "inbox"} <= set(v["case"])]
    rc = 0
    if eng:
        f = tempfile.NamedTemporaryFile("w", suffix=".json", delete=False)
        json.dump(dict(data, violations=eng), f)
        f.close()
        rc |= engine.replay_items(f.name, prefixes, prop)
        os.unlink(f.name)
    if cal:
        import p_calls
        f = tempfile.NamedTemporaryFile("w", suffix=".json", delete=False)
        json.dump(dict(data, violations=cal), f)
        f.close()
        rc |= p_calls._replay(prop, prefixes, f.name)
        os.unlink(f.name)
    if len(eng) + len(cal) < len(data["violations"]):
        os.environ["VERIF_SEED"] = str(data.get("seed", 1))
        import main
        mod, fn = main.CHECKS[prop]
        rc |= getattr(__import__(mod), fn)(data.get("tier", "quick"), int(data.get("seed", 1)), None)
    return rc


def _run(prop, prefixes, what, tier, seed, replay, extra=None):
    if replay:
        return _replay_any(prop, prefixes, replay)
    rep = Report(prop, tier, "model_checking")
    engine.report_engine(rep, tier, seed, prop, prefixes, what)
    mc.report_mc(rep, prop, tier, seed)
    if prop in ("C04", "C08", "C09", "C17"):
        engine.strict_stage(rep, tier, seed, prop)
    if prop in ("C01", "C08"):
        engine.model_trace_stage(rep, tier, seed, prefixes)
    if prop in ("C01", "C02"):
        engine.api_stage(rep, tier, seed, prefixes)
    if prop in ("C01", "C02", "C03", "C17"):
        engine.compiled_stage(rep, tier, seed, prop, prefixes)
    if prop == "C08":
        engine.trigger_stage(rep, tier, seed)
        engine.init_stage(rep, tier, seed, ("C08:",))
    if extra:
        extra(rep, tier, seed)
    rep.assumptions += ASSUME
    return rep.finish()


def _c01_mp(rep, tier, seed):
    """'This holds for the backtracking and the multiprocessing solver': vectors delivered by real worker processes
    (enumeration and optimisation on real splits), judged by spec/SolTrace.tla."""
    import json
    import mp
    from common import NCPU, Scratch, nucs_env, read_ndjson, run_workers, validate_shards
    scs = [sc for sc in mp.gen_scenarios(seed + 3, 96 if tier == "quick" else 1200, None, kmax=4)]
    with Scratch("c01mp") as tmp:
        outs = run_workers("mp_worker.py", [{"kind": "real", "scenarios": scs[k::NCPU]} for k in range(NCPU) if scs[k::NCPU]],
                           nucs_env(jit=False), tmp, timeout=900)
        runs = {r["id"]: r for r in read_ndjson(outs)}
        recs = []
        for sc in scs:
            r = runs.get(sc["id"])
            if r is None or r["outcome"] != "returned":
                rep.fail({"scenario": sc, "outcome": None if r is None else r["outcome"]}, "multiprocessing run did not return")
                continue
            sols = r["yields"] if sc["mode"] == "solve" else ([r["ret"]] if not r["none"] else [])
            recs.append({"rid": len(recs), "P": sc["P"], "sols": sols[:400], "sc": sc["id"]})
        slim = [{k: x[k] for k in ("rid", "P", "sols")} for x in recs]
        verdicts, judged, st, tr = validate_shards("SolTrace", "SolTrace.cfg", "SOL_RECS", slim, tmp)
    for rid, clause in set(map(tuple, verdicts)):
        sc = next(s for s in scs if s["id"] == recs[rid]["sc"])
        rep.fail({"P": sc["P"], "k": sc["k"], "mode": sc["mode"], "var": sc["var"], "clause": clause, "stage": "multiprocessing"},
                 f"{clause} on a vector delivered by the multiprocessing solver ({sc['k']} processes, {sc['mode']}) for {json.dumps(sc['P'])[:300]}")
    rep.add(states=st, transitions=tr, traces_validated_against_impl=judged)
    rep.cov["multiprocessing_vectors_judged"] = sum(len(x["sols"]) for x in recs)


def c01(tier, seed, replay):
    return _run("C01", ("C01:",), "every yielded / returned assignment is inside the declared domains, respects the "
                "offsets of shared domains and satisfies every posted constraint (backtracking solver: every event trace; "
                "multiprocessing solver: every vector delivered by real worker processes)", tier, seed, replay, extra=_c01_mp)


def c02(tier, seed, replay):
    return _run("C02", ("C02:",), "enumeration yields every solution exactly once (fresh at every yield, complete at "
                "the end) for every configuration and posting order", tier, seed, replay)


def _c03_mp(rep, tier, seed):
    """'The same holds when the optimisation is distributed over sub-problems by the multiprocessing solver':
    real splits, real worker streams, every arrival order, plus the synthetic reducer scenarios."""
    import mp
    sub = Report("C03", tier, "model_checking")
    recs, failures = mp.c11_pipeline(sub, tier, seed + 9, jit=False, scale=0.4, synthetic=True)
    for clause, case in failures:
        if case["mode"] != "solve" and clause in ("C11:none-iff-infeasible", "C11:optimum-differs-from-sequential",
                                                  "C11:not-the-best-incumbent", "C11:none-iff-no-incumbent", "C11:raised",
                                                  "C11:worker-stream-is-not-solutions-then-one-completion-marker"):
            rep.fail(dict(case, clause="C03:distributed-" + clause[4:]),
                     f"C03:distributed-{clause[4:]} mode={case['mode']} arrival order={case['gets']} streams={case['streams']}")
    rep.add(states=sub.cov.get("states", 0), transitions=sub.cov.get("transitions", 0),
            traces_validated_against_impl=sub.cov.get("traces_validated_against_impl", 0))
    rep.cov["distributed_optimisation_runs"] = sum(1 for x in recs if x["mode"] != "solve")


def c03(tier, seed, replay):
    return _run("C03", ("C03:",), "minimise/maximise: incumbents strictly improve, tightening keeps every better "
                "solution, the result is feasible and optimal, None iff infeasible; the same through the multiprocessing "
                "solver for every arrival order", tier, seed, replay, extra=_c03_mp)


def _c04_calls(rep, tier, seed):
    """A propagator that loops inside ONE call never returns to the engine: the call corpus (small-scope families,
    random and large-arity calls) is executed under a watchdog whose nomination is confirmed by a line-count cap."""
    import calls
    r = calls.run_corpus(tier, seed, ("C04:",), jit=False, nbig=3000 if tier == "quick" else 60000)
    for rec, clause in r["failures"]:
        case = calls.case_key(rec)
        case["clause"] = clause
        rep.fail(case, f"{clause} on {rec['alg']} params={rec['params'][:20]} box={rec['inbox'][:10]} (executed lines: {rec.get('lines')})")
    rep.add(states=r["states"], transitions=r["transitions"], traces_validated_against_impl=r["judged"])
    rep.cov["propagator_calls_under_watchdog"] = r["records"]


def c04(tier, seed, replay):
    return _run("C04", ("C04:",), "every pass executes at most PassBound constraints, no call hangs (line-count "
                "confirmed), no heuristic answers 'nothing to branch on' while the box is not ground", tier, seed, replay,
                extra=_c04_calls)


def c08(tier, seed, replay):
    return _run("C08", ("C08:",), "a pass only shrinks, keeps every solution, ends at a common fixpoint (each enabled "
                "constraint re-executed alone through the real routine) which is the greatest one for exact "
                "propagators", tier, seed, replay)


def c09(tier, seed, replay):
    return _run("C09", ("C09:",), "branching partitions the chosen domain, leaves the others untouched, announces the "
                "moved bounds for the branch and every alternative; backtracking restores the saved frame and fails "
                "only at the root", tier, seed, replay)


def c10(tier, seed, replay):
    # every C10 trace runs the shaving configuration: wrong / duplicated / missing solutions and wrong optima of a
    # solver using shaving are C10 violations too (the statement's last clause)
    return _run("C10", ("C10:", "C01:sat-all", "C02:", "C03:optimal", "C03:none-iff-infeasible"), "shaving: result inside plain bound consistency and the greatest fixpoint, keeps "
                "every solution, leaves the stack height unchanged, gives back every probed value that was not "
                "refuted", tier, seed, replay)


def _c17_mp(rep, tier, seed):
    """'for the multiprocessing solver each total is the sum over workers': real worker streams, arrival orders
    enumerated by TLC, the real parent loop, aggregated statistics judged by spec/MPTrace.tla."""
    import mp
    sub = Report("C17", tier, "model_checking")
    recs, failures = mp.c11_pipeline(sub, tier, seed + 5, jit=False, scale=0.3, synthetic=False)
    for clause, case in failures:
        if clause.startswith("C17:"):
            rep.fail(case, f"{clause} mode={case['mode']} arrival order={case['gets']}")
    rep.add(states=sub.cov.get("states", 0), transitions=sub.cov.get("transitions", 0),
            traces_validated_against_impl=sub.cov.get("traces_validated_against_impl", 0))
    rep.cov["multiprocessing_statistics_runs"] = len(recs)


def c17(tier, seed, replay):
    return _run("C17", ("C17:",), "the 13 statistics equal the observed event counts at every pass end, yield and "
                "return; conservation laws under plain bound consistency; multiprocessing totals are sums (max for depth) "
                "of the workers' final statistics", tier, seed, replay, extra=_c17_mp)


def c07(tier, seed, replay):
    """Call half (spec/CallTrace.tla) + engine half (flags across passes, pushes and backtracks)."""
    if replay:
        import json
        data = json.load(open(replay))
        if data["violations"] and "P" in data["violations"][0]["case"]:
            return engine.replay_items(replay, ("C07:",), "C07")
        import p_calls
        return p_calls._replay("C07", ("C07:",), replay)
    import calls
    rep = Report("C07", tier, "model_checking")
    calls.report_calls(rep, tier, seed, ("C07:",), "a call answers 'entailed' only if every tuple of the returned box "
                       "satisfies", jit_too=(tier == "thorough"))
    call_rule = rep.cov.get("rule", "")
    engine.report_engine(rep, tier, seed, "C07", ("C07:",), "a constraint disabled by a pass or carried into a pushed "
                         "level is entailed on that level's box; backtracking restores exactly the saved flags")
    rep.cov["rule"] = "CALL HALF: " + call_rule + " ENGINE HALF: " + rep.cov["rule"]
    mc.report_mc(rep, "C07", tier, seed)
    rep.assumptions += ASSUME
    return rep.finish()
