"""Engine corpus: record Layer-A traces of the real engine and let TLC (spec/AbsTrace.tla) judge every clause.

Serves C01 C02 C03 C04 C07(engine half) C08 C09 C10 C17 (and the engine-level clauses of C16/C19).
"""
from __future__ import annotations

import copy
import json
import os
import random

import problems
from common import NCPU, Machinery, Scratch, nucs_env, read_ndjson, run_workers, validate_shards

# focus -> knobs of the item generator
FOCUS = {
    "C01": dict(solo=True, branching=True, modes=["solve", "solve", "min", "max"], ca=None, reuse=True),
    "C02": dict(solo=True, branching=True, modes=["solve"], ca=None, reorder=True, allcfg=True, decision_orders=True, reuse=True, wide=True),
    "C03": dict(modes=["min", "max"], ca=None, allvars=True, reuse=True),
    "C04": dict(decision_orders=True, modes=["solve", "solve", "min"], ca=None, flavours=["circuit", "alias", "alias", "int", "bool"]),
    "C07": dict(solo=True, modes=["solve", "solve", "min", "max"], ca=None, flavours=["int", "int", "bool", "alias"]),
    "C08": dict(modes=["solve", "solve", "min", "max"], ca=0, flavours=["int", "int", "bool", "circuit", "alias"]),
    "C09": dict(branching=True, modes=["solve", "solve", "min"], ca=None, allcfg=True, wide=True),
    "C10": dict(modes=["solve", "solve", "min", "max"], ca=1, decision_orders=True),
    "C17": dict(modes=["solve", "solve", "min", "max"], ca=None, limits=True, reuse=True),
    "C16": dict(modes=["solve", "min"], ca=None),
    "C19": dict(modes=["solve", "solve", "min"], ca=None, heights=[1, 2, 2, 3, 3, 4, 5], wide=True),
}
SIZES = {"quick": 2400, "thorough": 60000}


def _cost_tables(r, P):
    width = max(hi for _, hi in P["doms"]) + 1
    return [[r.randint(1, 3) for _ in range(width)] for _ in P["doms"]]


def systematic_items(tier: str, seed: int, focus: str):
    """The exhaustive small family (2 domains within 0..2 x one constraint of the catalogue, 2196 problems) under a
    systematic choice of configurations: all five value heuristics for the properties that are about branching,
    every configuration in the thorough tier, a rotating one otherwise."""
    r = random.Random(seed * 77 + 5)
    knobs = FOCUS[focus]
    out = []
    for i, P in enumerate(problems.small_family()):
        if all(lo == hi for lo, hi in P["doms"]) and i % 4:
            continue
        if tier == "thorough":
            cfgs = [(ca, vh, dh) for ca in (0, 1) for vh in (0, 1, 2, 3) for dh in (0, 1, 2, 3, 4)]
            if knobs.get("ca") is not None:
                cfgs = [c for c in cfgs if c[0] == knobs["ca"]]
        elif knobs.get("branching"):
            ca = knobs["ca"] if knobs.get("ca") is not None else (1 if (i + seed) % 7 == 0 else 0)
            cfgs = [(ca, (i + seed) % 4 if dh == (i % 5) else 0, dh) for dh in (0, 1, 2, 3, 4)]
        else:
            j = i + seed
            ca = knobs["ca"] if knobs.get("ca") is not None else (j // 20) % 2
            cfgs = [(ca, (j // 5) % 4, j % 5)]
        for ca, vh, dh in cfgs:
            cfg = {"ca": ca, "vh": vh, "dh": dh, "height": 64 if not knobs.get("heights") else knobs["heights"][(i + dh) % len(knobs["heights"])]}
            if vh == 3:
                cfg["vparams"] = _cost_tables(r, P)
                if (i + dh) % 2:      # null costs = ignored values (in contract for max_regret)
                    cfg["vparams"] = [[c if (k + i) % 3 else 0 for k, c in enumerate(row)] for row in cfg["vparams"]]
            if dh == 4:
                cfg["dparams"] = _cost_tables(r, P)
            mode = knobs["modes"][(i + dh) % len(knobs["modes"])]
            it = {"P": P, "cfg": cfg, "mode": mode}
            if mode != "solve":
                it["var"] = (i + dh) % 2
            out.append(it)
    return out


def circuit_items(tier: str, seed: int, focus: str):
    """Systematic circuit models: n = 4, 5 successors, alldifferent + the sub-cycle constraint (in both posting orders),
    one successor fixed at the root and one successor with a narrowed range, under every value heuristic.  The
    sub-cycle constraint prunes a path's end and cascades through the instantiations it causes: the cascades that
    matter need five nodes."""
    knobs = FOCUS[focus]
    out = []
    k = 0
    for n in (4, 5):
        fixings = [(i, j) for i in range(n) for j in range(n) if i != j]
        if tier == "quick":
            fixings = fixings[(seed % 2)::2]
        for (i, j) in fixings:
            for (a, lo) in (((i + 1) % n, 0), ((i + 3) % n, n // 2)):
                doms = [[0, n - 1] for _ in range(n)]
                doms[i] = [j, j]
                doms[a] = [lo, n - 1]
                props = [{"vars": list(range(n)), "alg": "alldifferent", "params": []},
                         {"vars": list(range(n)), "alg": "no_sub_cycle", "params": []}]
                if k % 2:
                    props.reverse()
                P = {"doms": doms, "vidx": list(range(n)), "voff": [0] * n, "props": props}
                for dh in ((0, 1, 2, 3) if tier == "thorough" or n == 5 else (k % 4,)):
                    ca = knobs["ca"] if knobs.get("ca") is not None else (1 if k % 5 == 0 else 0)
                    cfg = {"ca": ca, "vh": (0, 2, 1)[(k + dh) % 3], "dh": dh, "height": 64}
                    out.append({"P": P, "cfg": cfg, "mode": "solve"})
                k += 1
    return out


def solo_items(tier: str, seed: int, focus: str):
    """One constraint ALONE in a solver, on the boxes of the propagator-call scope (harness/scope.py): a missed ground
    check or a premature entailment of one propagator cannot be masked by a neighbouring constraint."""
    import scope
    r = random.Random(seed * 31337 + 2)
    knobs = FOCUS[focus]
    n = 1000 if tier == "quick" else 20000
    cases = []
    while len(cases) < n:
        alg, params, box = scope.random_case(r)
        cases.append((alg, params, box))
    # ... and boxes of the exhaustive families (reservoir sample per family, more for the algorithms with a rich
    # case analysis), so that the shapes the call-level checks enumerate are also met by the engine
    rich = {"lexicographic_leq": 6, "alldifferent": 3, "gcc": 2, "element_iv": 2, "element_liv": 2, "count_eq": 2}
    base = 15 if tier == "quick" else 400
    for name in scope.FAMILIES:
        alg = scope.alg_of(name)
        quota = base * rich.get(alg, 1)
        if name in ("lex6w", "lex8"):      # three / four element vectors: rare shapes of the lexicographic automaton
            quota = 1500 if tier == "quick" else 20000
        res = []
        for k, c in enumerate(scope.family(name)):
            if len(res) < quota:
                res.append(c)
            else:
                j = r.randint(0, k)
                if j < quota:
                    res[j] = c
        cases += res
    out = []
    for alg, params, box in cases:
        size = 1
        for lo, hi in box:
            size *= hi - lo + 1
        if size > 600 or size < 2 or alg in ("no_sub_cycle", "scc"):
            continue
        nv = len(box)
        P = {"doms": [list(b) for b in box], "vidx": list(range(nv)), "voff": [0] * nv,
             "props": [{"vars": list(range(nv)), "alg": alg, "params": list(params)}]}
        cfg = problems.random_config(r, P, ca=knobs.get("ca"))
        mode = r.choice(knobs["modes"])
        it = {"P": P, "cfg": cfg, "mode": mode}
        if mode != "solve":
            it["var"] = r.randrange(nv)
        out.append(it)
    return out


def decision_order_items(tier: str, seed: int, focus: str):
    """Systematic: every domain is a decision domain, LISTED IN EVERY ORDER (all permutations of 3, a rotating sample of
    the 24 permutations of 4), with one domain instantiated from the start (each position, or none), under shaving and
    plain bound consistency.  The order of the list is configuration, not meaning: same solutions, same termination."""
    import itertools
    knobs = FOCUS[focus]
    out = []
    k = 0
    for nd in (3, 4):
        perms = list(itertools.permutations(range(nd)))
        for inst in [None] + list(range(nd)):
            doms = [[1, 1] if d == inst else [0, 2] for d in range(nd)]
            free = [d for d in range(nd) if d != inst]
            sets = [[{"vars": list(range(nd)), "alg": "affine_leq", "params": [1] * nd + [2 * nd]}],
                    [{"vars": free, "alg": "alldifferent", "params": []},
                     {"vars": list(range(nd)), "alg": "affine_geq", "params": [1] * nd + [2]}]]
            for props in sets:
                P = {"doms": doms, "vidx": list(range(nd)), "voff": [0] * nd, "props": props}
                chosen = perms if nd == 3 or tier == "thorough" else [perms[(seed + k + 5 * j) % len(perms)] for j in range(6)] + [perms[-1]]
                for perm in chosen:
                    k += 1
                    cas = [knobs["ca"]] if knobs.get("ca") is not None else ([1, 0] if tier == "thorough" or k % 3 == 0 else [1])
                    for ca in cas:
                        mode = knobs["modes"][k % len(knobs["modes"])]
                        it = {"P": P, "cfg": {"ca": ca, "vh": k % 3, "dh": k % 4, "height": 64, "decision": list(perm)}, "mode": mode}
                        if mode != "solve":
                            it["var"] = k % nd
                        out.append(it)
    return out


def wide_items(tier: str, seed: int, focus: str):
    """Problems with MORE THAN 256 shared domains: 256 (or 300) instantiated domains first, then the free domains of a
    small problem at indices >= 256 - every index the engine records (the domain of a saved alternative, a decision
    domain, a position of a constraint) needs more than 8 bits.  All five value heuristics."""
    r = random.Random(seed * 131 + 9)
    fam = [P for P in problems.small_family() if all(lo < hi for lo, hi in P["doms"])]
    r.shuffle(fam)
    knobs = FOCUS[focus]
    out = []
    n = 14 if tier == "quick" else 120
    for k in range(n):
        Q = fam[k % len(fam)]
        pad = 256 if k % 2 == 0 else 300
        doms = [[j % 3, j % 3] for j in range(pad)] + [list(d) for d in Q["doms"]]
        nd = len(doms)
        props = [{"vars": [v + pad for v in c["vars"]], "alg": c["alg"], "params": list(c["params"])} for c in Q["props"]]
        # a second constraint ties a padded (instantiated) domain to a free one, so that low and high indices meet
        props.append({"vars": [k % pad, pad], "alg": "affine_leq", "params": [1, -1, 2]})
        P = {"doms": doms, "vidx": list(range(nd)), "voff": [0] * nd, "props": props}
        for dh in ((0, 1, 2, 3) if knobs.get("branching") else (k % 4,)):
            mode = knobs["modes"][(k + dh) % len(knobs["modes"])]
            it = {"P": P, "cfg": {"ca": knobs["ca"] if knobs.get("ca") is not None else (1 if k % 5 == 0 else 0), "vh": k % 3, "dh": dh, "height": 64}, "mode": mode}
            if mode != "solve":
                it["var"] = pad + (k % 2)
            out.append(it)
    return out


def reuse_items(tier: str, seed: int, focus: str):
    """The same BacktrackSolver object called a second time: an earlier (unobserved) exhaustive enumeration, partial
    enumeration, minimisation or maximisation, then the recorded call.  Every call is a call of the properties."""
    r = random.Random(seed * 4099 + 7)
    knobs = FOCUS[focus]
    fam = [P for P in problems.small_family() if not all(lo == hi for lo, hi in P["doms"])]
    r.shuffle(fam)
    out = []
    n = 260 if tier == "quick" else 4000
    for k in range(n):
        P = fam[k % len(fam)] if k % 3 else problems.random_problem(r, cap=200)
        cfg = problems.random_config(r, P, ca=knobs.get("ca"))
        mode = knobs["modes"][k % len(knobs["modes"])]
        nv = len(P["vidx"])
        it = {"P": P, "cfg": cfg, "mode": mode, "prior": [["solve", "partial", "min", "max"][k % 4], r.randrange(nv)]}
        if mode != "solve":
            it["var"] = r.randrange(nv)
        out.append(it)
    return out


def build_items(tier: str, seed: int, focus: str, n: int | None = None):
    items = _random_items(tier, seed, focus, n)
    if n is None:
        if FOCUS[focus].get("reuse"):
            items += reuse_items(tier, seed, focus)
        if FOCUS[focus].get("wide"):
            items += wide_items(tier, seed, focus)
        items += systematic_items(tier, seed, focus)
        if FOCUS[focus].get("decision_orders"):
            items += decision_order_items(tier, seed, focus)
        if "circuit" in (FOCUS[focus].get("flavours") or ["circuit"]):
            items += circuit_items(tier, seed, focus)
        if FOCUS[focus].get("solo"):
            items += solo_items(tier, seed, focus)
    for k, it in enumerate(items):
        it["id"] = k
    return items


def _random_items(tier: str, seed: int, focus: str, n: int | None = None):
    knobs = FOCUS[focus]
    r = random.Random(seed * 1_000_003 + sum(map(ord, focus)))
    n = n or SIZES[tier]
    items = []
    k = 0
    while len(items) < n:
        flav = r.choice(knobs["flavours"]) if knobs.get("flavours") else None
        if knobs.get("branching") and r.random() < 0.5:
            flav = "triple"
        P = problems.random_problem(r, cap=600, flavour=flav)
        variants = [P]
        if knobs.get("reorder") and len(P["props"]) > 1 and r.random() < 0.3:
            Q = copy.deepcopy(P)
            r.shuffle(Q["props"])
            variants.append(Q)
        for V in variants:
            if knobs.get("allcfg") and r.random() < 0.06:
                cfgs = list(problems.all_configs(V, r))
            else:
                cfgs = [problems.random_config(r, V, ca=knobs.get("ca")) for _ in range(r.choice([1, 1, 2]))]
                if flav == "triple":   # nested three-way splits
                    for c in cfgs:
                        if c["dh"] in (0, 1, 2) and r.random() < 0.7:
                            c["dh"] = 3
            for cfg in cfgs:
                if knobs.get("heights"):
                    cfg["height"] = r.choice(knobs["heights"])
                mode = r.choice(knobs["modes"])
                vars_ = [None]
                if mode != "solve":
                    nv = len(V["vidx"])
                    vars_ = list(range(nv)) if knobs.get("allvars") and r.random() < 0.3 else [r.randrange(nv)]
                for v in vars_:
                    it = {"id": k, "P": V, "cfg": cfg, "mode": mode}
                    if v is not None:
                        it["var"] = v
                    if knobs.get("limits") and mode == "solve" and r.random() < 0.25:
                        it["limit"] = r.randint(1, 3)
                    items.append(it)
                    k += 1
    return items[:n] if not knobs.get("allcfg") else items


def nontrivial(tr) -> bool:
    """A trace is non-trivial when the engine pruned a domain by propagation or took a branching decision."""
    for e in tr["ev"]:
        if e["k"] == "B":
            return True
        if e["k"] == "P" and any(f[1] for f in e.get("f", [])):
            return True
    return False


def item_key(it):
    return json.dumps([it["P"], it["cfg"], it.get("mode", "solve"), it.get("var", -1), it.get("limit", -1), it.get("prior") or []], sort_keys=True)


def record_and_judge(items, tmp, probes=True, timeout=3000):
    nested = all(it["cfg"].get("ca") == 1 for it in items)
    jobs = [{"items": items[k::NCPU], "probes": probes, "nested_probes": nested} for k in range(NCPU) if items[k::NCPU]]
    outs = run_workers("rec_engine.py", jobs, nucs_env(jit=False), tmp, timeout=timeout)
    traces = list(read_ndjson(outs))
    for f in outs:
        f.unlink()
    verdicts, judged, st, tr = validate_shards("AbsTrace", "AbsTrace.cfg", "TRACES", traces, tmp, timeout=timeout)
    return traces, verdicts, judged, st, tr


def run_corpus(tier: str, seed: int, focus: str, items=None, chunk: int = 6000):
    items = items if items is not None else build_items(tier, seed, focus)
    byid = {it["id"]: it for it in items}
    res = {"items": len(items), "judged": 0, "states": 0, "transitions": 0, "failures": [], "events": 0, "cut": 0,
           "slow": 0, "kinds": {}, "clauses": {}, "samples": []}
    seen = set()
    nontriv = 0
    dedupe = set()
    # chunks keep the memory bounded in the thorough tier (each chunk is recorded and judged, then dropped)
    for c0 in range(0, len(items), chunk):
        part = items[c0:c0 + chunk]
        with Scratch("engine") as tmp:
            traces, verdicts, judged, st, tr = record_and_judge(part, tmp)
        res["judged"] += judged
        res["states"] += st
        res["transitions"] += tr
        res["events"] += sum(len(t["ev"]) for t in traces)
        res["cut"] += sum(1 for t in traces if t["cut"])
        res["slow"] += sum(1 for t in traces if t["slow"])
        for t in traces:
            key = item_key(byid[t["id"]])
            for e in t["ev"]:
                res["kinds"][e["k"]] = res["kinds"].get(e["k"], 0) + 1
            if key not in seen:
                seen.add(key)
                if nontrivial(t):
                    nontriv += 1
                    if len(res["samples"]) < 4 and t["id"] % 53 == 0:
                        it = byid[t["id"]]
                        res["samples"].append({"problem": it["P"], "cfg": {k: it["cfg"][k] for k in ("ca", "vh", "dh")},
                                               "mode": it["mode"], "var": it.get("var", -1),
                                               "events": [e["k"] for e in t["ev"]][:60]})
        if not res["samples"] and traces:
            it = byid[traces[0]["id"]]
            res["samples"].append({"problem": it["P"], "cfg": it["cfg"], "mode": it["mode"],
                                   "events": [e["k"] for e in traces[0]["ev"]][:60]})
        for rid, l, clause in verdicts:
            if (rid, clause) in dedupe:
                continue
            dedupe.add((rid, clause))
            if clause.startswith("XX:"):
                raise Machinery(f"trace {rid} left the specification's scope: {clause} item={json.dumps(byid[rid])[:500]}")
            res["clauses"][clause] = res["clauses"].get(clause, 0) + 1
            res["failures"].append((byid[rid], l, clause))
        del traces
    res["distinct"] = len(seen)
    res["nontrivial"] = nontriv
    return res


def report_engine(rep, tier, seed, focus, prefixes, what):
    r = run_corpus(tier, seed, focus)
    shrunk = 0
    for it, l, clause in r["failures"]:
        if clause.startswith(prefixes) and shrunk < 2 and not os.environ.get("VERIF_NO_SHRINK"):
            # minimise the first failing instances before they go to the replay file
            shrunk += 1
            try:
                with Scratch("shrink") as tmp:
                    small = shrink({"P": it["P"], "cfg": it["cfg"], "mode": it["mode"],
                                    **({"var": it["var"]} if "var" in it else {}),
                                    **({"limit": it["limit"]} if "limit" in it else {}),
                                    **({"prior": it["prior"]} if it.get("prior") else {})}, clause, tmp)
                rep.fail({"P": small["P"], "cfg": small["cfg"], "mode": small["mode"], "var": small.get("var", -1),
                          "limit": small.get("limit", -1), "prior": small.get("prior") or [], "clause": clause, "event": -1, "minimised": True,
                          "algs": sorted({c["alg"] for c in small["P"]["props"]})},
                         f"{clause} (minimised) of {small['mode']} on {json.dumps(small['P'])[:300]} cfg={small['cfg']}")
            except Exception as ex:  # noqa: shrinking is best effort
                rep.notes.append(f"shrinker failed: {ex}")
        if clause.startswith(prefixes):
            case = {"P": it["P"], "cfg": it["cfg"], "mode": it["mode"], "var": it.get("var", -1),
                    "limit": it.get("limit", -1), "prior": it.get("prior") or [], "clause": clause, "event": l,
                    "algs": sorted({c["alg"] for c in it["P"]["props"]})}
            rep.fail(case, f"{clause} at event {l} of {it['mode']} on {json.dumps(it['P'])[:300]} cfg={it['cfg']}"
                           + (f" after an earlier {it['prior'][0]} call on the same solver object" if it.get("prior") else ""))
    rep.add(evaluations=r["items"], distinct_nontrivial=r["nontrivial"], states=r["states"],
            transitions=r["transitions"], traces_validated_against_impl=r["judged"], events=r["events"])
    rep.add(samples=r["samples"])
    rep.cov["event_kinds"] = r["kinds"]
    rep.cov["traces_cut_by_event_cap"] = r["cut"]
    rep.cov["traces_slow_not_hung"] = r["slow"]
    rep.cov["clauses_of_other_properties_seen"] = {c: n for c, n in r["clauses"].items() if not c.startswith(prefixes)}
    rep.add(rule=f"{what}. Cases: seeded random in-contract problems (harness/problems.py: 1-6 shared domains, bounds "
                 "-3..7 incl. negative and singleton, aliased variables with offsets, a variable or shared domain "
                 "twice in one constraint, any mix of the 21 algorithms, circuit models) x configurations "
                 "(consistency algorithm x variable heuristic x value heuristic, cost tables with ties) x "
                 "enumeration / partial enumeration / minimise / maximise. Each case is executed by the real engine "
                 "(interpreted mode, observed by registry interposition) and its event trace is replayed through "
                 "spec/NucsAbs.tla by TLC (one state per event). Distinct = distinct (problem, configuration, mode, "
                 "objective); non-trivial = propagation pruned a domain or a branching decision was taken.")
    return r


def replay_items(path, prefixes, prop):
    data = json.load(open(path))
    items = []
    for k, v in enumerate(data["violations"]):
        c = v["case"]
        it = {"id": k, "P": c["P"], "cfg": c["cfg"], "mode": c["mode"]}
        if c.get("var", -1) >= 0:
            it["var"] = c["var"]
        if c.get("limit", -1) >= 0:
            it["limit"] = c["limit"]
        if c.get("prior"):
            it["prior"] = c["prior"]
        items.append(it)
    r = run_corpus("quick", 1, "C01", items=items)
    rc = 0
    for it, l, clause in r["failures"]:
        if clause.startswith(prefixes):
            print(f"replay: {clause} at event {l} on {json.dumps(it)[:400]}")
            rc = 1
    if rc:
        print(f"VIOLATION property={prop} replay={path}")
    return rc


def strict_stage(rep, tier, seed, focus, n=None):
    """Layer B binding: mechanism-level traces of the real engine replayed through the operators of NucsMech
    (spec/MechTrace.tla).  A mismatch is DRIFT (printed, exit code unaffected).  One trace is corrupted on purpose
    and must be rejected (negative control: the binding is not vacuous)."""
    n = n or (300 if tier == "quick" else 6000)
    items = [it for it in _random_items(tier, seed + 1, focus, n)][:n]
    for k, it in enumerate(items):
        it["id"] = k
    with Scratch("strict") as tmp:
        jobs = [{"items": items[k::NCPU], "probes": False, "strict": True} for k in range(NCPU) if items[k::NCPU]]
        outs = run_workers("rec_engine.py", jobs, nucs_env(jit=False), tmp, timeout=3000)
        traces = list(read_ndjson(outs))
        for f in outs:
            f.unlink()
        # negative control: flip one queue entry / shift one bound in a copy of the first suitable trace
        ctrl = None
        for t in traces:
            idx = [i for i, ev in enumerate(t["ev"]) if ev["k"] == "P" and ev["alg"] == 0 and not ev["trunc"] and ev["q"]]
            if idx:
                ctrl = json.loads(json.dumps(t))
                ctrl["id"] = 10 ** 6
                ev = ctrl["ev"][idx[len(idx) // 2]]
                ev["q"][0] = not ev["q"][0]
                break
        if ctrl is None:
            raise Machinery("no trace suitable for the strict negative control")
        verdicts, judged, st, tr = validate_shards("MechTrace", "MechTrace.cfg", "MTRACES", traces + [ctrl], tmp,
                                                   extra_env={"FAMILY": str(tmp / "none.ndjson")})
    drift = {}
    ctrl_hit = False
    for rid, l, clause in verdicts:
        if rid == 10 ** 6:
            ctrl_hit = True
            continue
        drift[clause] = drift.get(clause, 0) + 1
    if not ctrl_hit:
        raise Machinery("negative control failed: a corrupted queue snapshot was accepted by MechTrace")
    for clause, k in sorted(drift.items()):
        print(f"DRIFT layer=mech clause={clause} traces={k} (the mechanism mirror is stale; no property is decided by it)")
    rep.add(states=st, transitions=tr)
    rep.cov["strict_mechanism_traces"] = {"spec": "spec/MechTrace.tla", "traces": len(traces),
                                          "events": sum(len(t["ev"]) for t in traces), "drift": drift,
                                          "negative_control": "one flipped queue entry: rejected"}
    return drift


def trigger_items(tier):
    """(algorithm, arity, parameters, window) instances for the trigger-sufficiency lemma (spec/Triggers.tla)."""
    import itertools
    out = []

    def add(alg, n, params, lo, hi):
        out.append({"rid": len(out), "alg": alg, "n": n, "params": list(params), "lo": lo, "hi": hi})

    for alg in ("affine_eq", "affine_geq", "affine_leq"):
        for cs in itertools.product((-2, -1, 0, 1, 2), repeat=2):
            for k in (-1, 0, 1, 2):
                add(alg, 2, list(cs) + [k], 0, 2)
        for cs in ((1, 1, 1), (1, -1, 1), (2, -1, 0), (1, 0, -1), (-1, -1, -1)):
            for k in (0, 1, 2):
                add(alg, 3, list(cs) + [k], 0, 1 if tier == "quick" else 2)
    for n in (2, 3):
        add("alldifferent", n, [], 0, 2)
        add("and", n, [], 0, 1)
        for a in (0, 1):
            add("count_eq", n, [a], 0, 2 if n == 2 else 1)
        add("lexicographic_leq", 2, [], 0, 2)
        for alg in ("max_eq", "max_leq", "min_eq", "min_geq"):
            add(alg, n, [], 0, 2 if n == 2 else 1)
        for c in (0, 1, 2):
            add("exactly_eq", n, [1, c], 0, 2 if n == 2 else 1)
            add("exactly_true", n, [c], 0, 1)
        add("element_lic", n, [1], 0, 2 if n == 2 else 1)
    add("lexicographic_leq", 4, [], 0, 1)
    for n in ((2, 3, 4) if tier == "quick" else (2, 3, 4, 5)):       # the circuit algorithms: no-failure half, on their explicit definitions
        add("no_sub_cycle", n, [], 0, n - 1)
        add("scc", n, [], 0, n - 1)
    add("element_liv", 3, [], 0, 2)
    for lst in ((0, 2, 1), (1, 1), (2, 0, 0, 1)):
        add("element_iv", 2, lst, -1, 2)
    for tab in ((0, 1, 1, 2, 2, 0), (1, 1), (0, 0, 2, 2)):
        add("relation", 2, tab, 0, 2)
    for caps in ((0, 0, 0, 1, 1, 2), (1, 0, 0, 2, 2, 2), (0, 0, 0, 2, 2, 2)):
        add("gcc", 2, [0] + list(caps), 0, 2)
        add("gcc", 3, [0] + list(caps), 0, 2 if tier == "thorough" else 1)
    return out


def trigger_stage(rep, tier, seed):
    items = trigger_items(tier)
    with Scratch("trig") as tmp:
        outs = run_workers("rec_triggers.py", [{"items": items}], nucs_env(jit=False), tmp, timeout=600)
        recs = list(read_ndjson(outs))
        verdicts, judged, st, tr = validate_shards("Triggers", "Triggers.cfg", "TRIGGER_RECS", recs, tmp)
    for rid, clause in verdicts:
        r = recs[rid]
        rep.fail({"alg": r["alg"], "n": r["n"], "params": r["params"], "masks": r["masks"], "clause": clause},
                 f"{clause}: {r['alg']} arity {r['n']} params {r['params']} declares masks {r['masks']}, but an unwatched "
                 f"bound change inside the window [{r['lo']},{r['hi']}] makes it fail or prune")
    rep.add(states=st, transitions=tr)
    rep.cov["trigger_sufficiency_lemma"] = {"spec": "spec/Triggers.tla", "instances": len(recs),
                                            "algorithms": sorted({r["alg"] for r in recs}),
                                            "sample": {k: recs[0][k] for k in ("alg", "n", "params", "masks")}}


def compiled_stage(rep, tier, seed, focus, prefixes):
    """The verdicts of the (interpreted) engine traces carried over to the compiled engine: a sample of the very items
    of this check's corpus is run interpreted and compiled without any observation; spec/CompiledTrace.tla demands the
    same sequence of solutions / optimum / statistics."""
    from common import run_workers_resilient, warm_jit
    warm_jit()
    r = random.Random(seed * 271 + 3)
    pool = [it for it in build_items(tier, seed, focus) if it.get("limit") is None and it["cfg"].get("height", 64) >= 16]
    r.shuffle(pool)
    items = pool[: (600 if tier == "quick" else 8000)]
    jobs = [{"rid": k, "runs": [{"P": it["P"], "cfg": it["cfg"], "mode": it["mode"], "var": it.get("var", 0), "cap": 4000}]}
            for k, it in enumerate(items)]
    res = {}
    with Scratch("comp") as tmp:
        for tag, jit in (("interp", False), ("comp", True)):
            outs, killed = run_workers_resilient("rec_rewrites.py", [{"items": jobs[k::NCPU], "timeout": 60.0} for k in range(NCPU)
                                                                     if jobs[k::NCPU]], nucs_env(jit=jit), tmp, item_timeout=90.0)
            for o in read_ndjson(outs):
                res.setdefault(o["rid"], {})[tag] = o["res"][0]
            for f in outs:
                f.unlink()
        recs = [{"rid": k, "mode": items[k]["mode"], "interp": res[k]["interp"], "comp": res[k]["comp"]}
                for k in range(len(items)) if len(res.get(k, {})) == 2]
        verdicts, judged, st, tr = validate_shards("CompiledTrace", "CompiledTrace.cfg", "COMPILED_RECS", recs, tmp)
    for rid, clause in set(map(tuple, verdicts)):
        if clause.startswith(prefixes):
            it = items[rid]
            rep.fail({"P": it["P"], "cfg": it["cfg"], "clause": clause, "stage": "compiled", "run_mode": it["mode"], "var": it.get("var", -1)},
                     f"{clause} ({it['mode']}) on {json.dumps(it['P'])[:300]} cfg={it['cfg']}")
    rep.add(states=st, transitions=tr, traces_validated_against_impl=judged)
    rep.cov["compiled_engine_runs_compared_with_the_validated_interpreted_runs"] = {
        "spec": "spec/CompiledTrace.tla", "items": len(recs), "with_solutions": sum(1 for x in recs if x["interp"]["sols"])}


def api_stage(rep, tier, seed, prefixes):
    """The public entry points agree: solve() converted at once, its arrays kept by reference, find_all(), solve_all(),
    the multiprocessing solver's find_all() (spec/ApiTrace.tla)."""
    r = random.Random(seed * 613 + 11)
    n = 320 if tier == "quick" else 6000
    items = []
    for k in range(n):
        P = problems.random_problem(r, cap=300)
        cfg = {"ca": r.choice([0, 0, 1]), "vh": r.choice([0, 1, 2]), "dh": r.choice([0, 1, 2, 3])}
        it = {"rid": k, "P": P, "cfg": cfg}
        if k % 8 == 0:
            it["mp"] = r.choice([1, 2, 3])
            it["mpvar"] = r.randrange(len(P["vidx"]))
        items.append(it)
    with Scratch("api") as tmp:
        for mode_jit in ((False, True) if tier == "thorough" else (False,)):
            outs = run_workers("rec_api.py", [{"items": items[k::NCPU]} for k in range(NCPU) if items[k::NCPU]],
                               nucs_env(jit=mode_jit), tmp, timeout=1500)
            recs = sorted(read_ndjson(outs), key=lambda x: x["rid"])
            verdicts, judged, st, tr = validate_shards("ApiTrace", "ApiTrace.cfg", "API_RECS", recs, tmp)
            for rid, clause in set(map(tuple, verdicts)):
                if clause.startswith(prefixes):
                    rep.fail({"P": items[rid]["P"], "cfg": items[rid]["cfg"], "clause": clause, "stage": "public-entry-points"},
                             f"{clause} on {json.dumps(items[rid]['P'])[:300]} cfg={items[rid]['cfg']}")
            rep.add(states=st, transitions=tr, traces_validated_against_impl=judged)
    rep.cov["public_entry_points"] = {"spec": "spec/ApiTrace.tla", "problems": len(items),
                                      "with_multiprocessing_find_all": sum(1 for x in items if x.get("mp")),
                                      "with_solutions": sum(1 for x in recs if x["iter"])}


def init_stage(rep, tier, seed, prefixes):
    """Problem.init(): stable complexity sort, trigger matrix and flattened arrays judged by spec/ProblemInit.tla."""
    r = random.Random(seed * 991 + 4)
    n = 600 if tier == "quick" else 12000
    items = []
    for k in range(n):
        P = problems.random_problem(r, cap=10 ** 6, flavour=r.choice(["alias", "alias", "int", "bool", "circuit"]))
        if r.random() < 0.5 and len(P["props"]) > 1:       # duplicates and equal-cost constraints: ties for the sort
            P["props"].append(json.loads(json.dumps(r.choice(P["props"]))))
            r.shuffle(P["props"])
        items.append({"rid": k, "P": P})
    with Scratch("init") as tmp:
        outs = run_workers("rec_init.py", [{"items": items[k::NCPU]} for k in range(NCPU) if items[k::NCPU]],
                           nucs_env(jit=False), tmp, timeout=900)
        recs = list(read_ndjson(outs))
        verdicts, judged, st, tr = validate_shards("ProblemInit", "ProblemInit.cfg", "INIT_RECS", recs, tmp)
    byid = {x["rid"]: x for x in items}
    drift = {}
    for rid, clause in verdicts:
        if clause.startswith("DRIFT:"):
            drift[clause] = drift.get(clause, 0) + 1
        elif clause.startswith(prefixes):
            rep.fail({"P": byid[rid]["P"], "clause": clause}, f"{clause} after Problem.init() of {json.dumps(byid[rid]['P'])[:300]}")
    for clause, k in sorted(drift.items()):
        print(f"DRIFT layer=init clause={clause[6:]} records={k} (mirror of the current Problem.init; no property is decided by it)")
    rep.add(states=st, transitions=tr, traces_validated_against_impl=judged)
    rep.cov["problem_init_records"] = {"spec": "spec/ProblemInit.tla", "records": len(recs), "drift": drift,
                                       "with_aliased_positions": sum(1 for x in recs if any(
                                           len({x["vidx"][v] for v in c["vars"]}) < len(c["vars"]) for c in x["posted"]))}


MODEL_TRACES = [("queens", [5], {}, "solve"), ("magic_sequence", [5], {}, "solve"), ("latin_square", [[0, 1, 2]], {}, "solve"),
                ("quasigroup", [4, True], {}, "solve"), ("schur", [5, True], {}, "solve"), ("circuit", [4], {}, "solve"),
                ("circuit", [6], {}, "solve"), ("circuit", [5], {"dh": 3, "vh": 2}, "solve"),
                ("golomb_bounded", [4, 7, True], {"custom_ca": "golomb"}, "solve"),
                ("golomb_bounded", [5, 13, True], {"custom_ca": "golomb"}, "solve"),
                ("golomb_bounded", [5, 11, False], {"custom_ca": "golomb"}, "solve"),
                ("golomb_bounded", [5, 13, True], {"custom_ca": "golomb"}, "min"),
                ("golomb_bounded", [5, 12, False], {"custom_ca": "golomb", "ca": 0}, "min"),
                ("golomb_bounded", [4, 7, True], {"ca": 1}, "solve"),
                ("knapsack", [[4, 4, 3, 3, 2], [4, 4, 3, 3, 2], 7], {"dh": 1}, "max"),
                ("tsp", [[[0, 9, 1, 8], [2, 0, 7, 1], [9, 1, 0, 3], [1, 6, 2, 0]]], {"decision": [0, 1, 2, 3]}, "min")]


def model_trace_stage(rep, tier, seed, prefixes):
    """Layer-A traces of the shipped models (real constructors, small sizes), including the Golomb model under its
    custom consistency algorithm, which filters by itself before calling bound consistency."""
    with Scratch("mtr") as tmp:
        outs = run_workers("export_models.py", [{"models": [[n, a] for n, a, _, _ in MODEL_TRACES]}], nucs_env(jit=False), tmp, timeout=600)
        exported = list(read_ndjson(outs))
        items = []
        for k, (m, (name, args, cfg, mode)) in enumerate(zip(exported, MODEL_TRACES)):
            c = dict({"ca": 0, "vh": 0, "dh": 0, "height": 64}, **cfg)
            it = {"id": k, "P": m["P"], "cfg": c, "mode": mode}
            if mode != "solve":
                it["var"] = m["extra"].get("length_idx", m["extra"].get("weight", len(m["P"]["vidx"]) - 1))
            items.append(it)
        traces, verdicts, judged, st, tr = record_and_judge(items, tmp)
    seen = set()
    for rid, l, clause in verdicts:
        if (rid, clause) in seen:
            continue
        seen.add((rid, clause))
        if clause.startswith("XX:"):
            raise Machinery(f"model trace {MODEL_TRACES[rid][:2]} left the specification's scope: {clause}")
        if clause.startswith(prefixes):
            name, args, cfg, mode = MODEL_TRACES[rid]
            rep.fail({"model": name, "args": args, "cfg": cfg, "mode": mode, "clause": clause, "event": l},
                     f"{clause} at event {l} of the engine trace of {name}{args} cfg={cfg} mode={mode}")
    rep.add(states=st, transitions=tr, traces_validated_against_impl=judged)
    rep.cov["shipped_model_engine_traces"] = {"traces": len(traces), "events": sum(len(t["ev"]) for t in traces),
                                              "models": sorted({n for n, _, _, _ in MODEL_TRACES}),
                                              "custom_consistency_algorithm": "golomb (4 traces)"}


def shrink(item, clause, tmp, budget=14):
    """Greedy delta debugging of a failing engine item: drop constraints, simplify the configuration, narrow domains,
    keeping a candidate whenever the SAME clause still fails.  Returns the smallest failing item found."""
    import copy as _copy

    def fails(it):
        it = dict(it, id=0)
        try:
            traces, verdicts, *_ = record_and_judge([it], tmp)
        except Machinery:
            return False
        return any(c == clause for _, _, c in verdicts)

    best = _copy.deepcopy(item)
    tries = 0

    def candidates(it):
        P = it["P"]
        for k in range(len(P["props"])):
            if len(P["props"]) > 1:
                c = _copy.deepcopy(it)
                del c["P"]["props"][k]
                yield c
        for key, val in (("ca", 0), ("vh", 0), ("dh", 0)):
            if it["cfg"].get(key, 0) != val and not (key == "dh" and it["cfg"].get("dh") in (3, 4) and "dparams" in it["cfg"]):
                c = _copy.deepcopy(it)
                c["cfg"][key] = val
                yield c
        if it["cfg"].get("decision"):
            c = _copy.deepcopy(it)
            del c["cfg"]["decision"]
            yield c
        for d, (lo, hi) in enumerate(P["doms"]):
            if hi > lo:
                for nd in ([lo, hi - 1], [lo + 1, hi]):
                    c = _copy.deepcopy(it)
                    c["P"]["doms"][d] = nd
                    yield c

    progress = True
    while progress and tries < budget:
        progress = False
        for cand in candidates(best):
            if tries >= budget:
                break
            tries += 1
            if fails(cand):
                best = cand
                progress = True
                break
    return best
