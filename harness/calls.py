"""Propagator-call corpus: record real compute_domains_* calls, let TLC judge every clause.

Serves C05, C06, C07 (call half), C14 and the call-level clauses of C04 / C16.
"""
from __future__ import annotations

import json
import time

import scope
from common import NCPU, Machinery, Scratch, nucs_env, read_ndjson, run_workers, validate_shards

QUICK_PER_FAMILY = 2500
THOROUGH_PER_FAMILY = 120_000


def plan(tier: str):
    cap = QUICK_PER_FAMILY if tier == "quick" else THOROUGH_PER_FAMILY
    rate = {}
    for name in scope.FAMILIES:
        sz = scope.family_size(name)
        rate[name] = 1.0 if sz <= cap or (tier == "quick" and name in scope.FULL_IN_QUICK) else cap / sz
    return rate


def case_key(rec):
    return {"alg": rec["alg"], "params": rec["params"], "inbox": rec["inbox"]}


def nontrivial(rec):
    if all(lo == hi for lo, hi in rec["inbox"]):
        return False
    return rec["status"] in (0, 2) or rec["outbox"] != rec["inbox"]


def run_corpus(tier: str, seed: int, prefixes: tuple[str, ...], jit: bool = False, boundscheck: bool = False,
               families=None, nrandom=None, nbig=0):
    """Returns dict(records, judged, failures=[(rec, clause)], nontrivial, samples, states, transitions, per_alg)."""
    rate = plan(tier)
    fams = list(families if families is not None else scope.FAMILIES)
    if nrandom is None:
        nrandom = 4000 if tier == "quick" else 60000
    env = nucs_env(jit=jit, boundscheck=boundscheck)
    res = {"records": 0, "judged": 0, "failures": [], "nontrivial": 0, "samples": [], "states": 0, "transitions": 0,
           "per_alg": {}, "other_clauses": {}}
    seen = set()
    # batches of families keep memory bounded in the thorough tier
    batch, batches, acc = [], [], 0
    for name in fams:
        est = int(scope.family_size(name) * rate[name])
        batch.append(name)
        acc += est
        if acc > 250_000:
            batches.append(batch)
            batch, acc = [], 0
    if batch or not batches:
        batches.append(batch)
    with Scratch("calls") as tmp:
        for bi, b in enumerate(batches):
            jobs = [{"families": b, "offset": k, "stride": NCPU, "rate": rate, "seed": seed,
                     "random": (nrandom // NCPU + 1) if bi == 0 and nrandom else 0,
                     "big": (nbig // NCPU + 1) if bi == 0 and nbig else 0,
                     "idbase": (bi * NCPU + k) * 10_000_000} for k in range(NCPU)]
            outs = run_workers("rec_calls.py", jobs, env, tmp, timeout=3000)
            recs = list(read_ndjson(outs))
            byid = {r["id"]: r for r in recs}
            slim = [{k: r[k] for k in ("id", "alg", "params", "inbox", "status", "outbox", "status2", "outbox2")}
                    for r in recs]
            verdicts, judged, st, tr = validate_shards("CallTrace", "CallTrace.cfg", "CALLS", slim, tmp)
            res["records"] += len(recs)
            res["judged"] += judged
            res["states"] += st
            res["transitions"] += tr
            for r in recs:
                key = (r["alg"], tuple(r["params"]), tuple(map(tuple, r["inbox"])))
                if key in seen:
                    continue
                seen.add(key)
                pa = res["per_alg"].setdefault(r["alg"], [0, 0])
                pa[0] += 1
                if nontrivial(r):
                    pa[1] += 1
                    res["nontrivial"] += 1
                    if len(res["samples"]) < 8 and r["id"] % 97 == 0:
                        res["samples"].append({k: r[k] for k in ("alg", "params", "inbox", "status", "outbox")})
            for rid, clause in verdicts:
                if clause.startswith("XX:"):
                    raise Machinery(f"generator left the contract: {byid[rid]}")
                if clause.startswith(prefixes):
                    res["failures"].append((byid[rid], clause))
                else:
                    res["other_clauses"][clause] = res["other_clauses"].get(clause, 0) + 1
            for f in outs:
                f.unlink()
    if not res["samples"] and res["records"]:
        res["samples"].append({"note": "no sampled record"})
    return res


def report_calls(rep, tier, seed, prefixes, what, jit_too=False):
    modes = [False] + ([True] if jit_too else [])
    for jit in modes:
        r = run_corpus(tier, seed, prefixes, jit=jit)
        for rec, clause in r["failures"]:
            case = case_key(rec)
            case["clause"] = clause
            case["mode"] = "jit" if jit else "interpreted"
            rep.fail(case, f"{clause} on {rec['alg']} params={rec['params']} box={rec['inbox']} -> "
                           f"status={rec['status']} out={rec['outbox']}")
        rep.add(evaluations=r["records"], distinct_nontrivial=r["nontrivial"], states=r["states"],
                transitions=r["transitions"], traces_validated_against_impl=r["judged"])
        rep.add(samples=r["samples"])
        rep.cov.setdefault("per_algorithm_distinct_and_nontrivial", {}).update(
            {("jit:" if jit else "") + k: v for k, v in r["per_alg"].items()})
        rep.cov["clauses_of_other_properties_seen"] = r["other_clauses"]
    rep.add(rule=f"{what}. Cases: every box of the exhaustive small-scope families in harness/scope.py "
                 f"({len(scope.FAMILIES)} families, sampled to <= {QUICK_PER_FAMILY if tier=='quick' else THOROUGH_PER_FAMILY} "
                 "per family by a seeded stream) plus seeded random calls up to arity 8. Distinct = distinct "
                 "(algorithm, parameters, input box); non-trivial = at least one non-instantiated variable and the "
                 "call pruned, failed or answered entailed. Each record = one state of spec/CallTrace.tla; every clause "
                 "is evaluated by TLC with brute-force supports.",
            exhaustive=all(v >= 1.0 for v in plan(tier).values()))
    rep.cov["families_run_completely"] = sorted(k for k, v in plan(tier).items() if v >= 1.0)[:200]
    rep.cov["families_sampled"] = {k: round(v, 4) for k, v in plan(tier).items() if v < 1.0}
