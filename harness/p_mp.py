"""C11 (multiprocessing = sequential for every interleaving) and C18 (a dying worker cannot hang the parent)."""
import json

import mp
from common import NCPU, Machinery, Report, Scratch, nucs_env, read_ndjson, run_tlc, run_workers

ASSUME_C11 = [
    "the workers' streams of each scenario come from real runs of solve_and_queue / optimize_and_queue on the parts "
    "returned by the real Problem.split; the parent loop replayed is the real MultiprocessingSolver code with fake "
    "transport objects (Queue/Process) installed from outside",
    "real-process runs cover only the schedules the OS produced; the exhaustive quantifier over interleavings is "
    "discharged by TLC on spec/MPSolver.tla and by replaying every arrival order it enumerates",
]


def apalache_stage(rep, tier):
    """Unbounded safety of the reducer: the inductive invariant of spec/apalache/MPInd.tla discharged by Apalache
    (base case, inductive step, invariant => C11 safety).  Extra assurance on top of the bounded TLC exploration."""
    import shutil
    import subprocess
    from common import SPEC, Scratch
    if shutil.which("apalache-mc") is None:
        rep.notes.append("apalache-mc not found: the inductive-invariant stage was skipped")
        return
    obligations = [("inductive step", ["--init=IndInit", "--inv=IndInv", "--length=1"])]
    if tier == "thorough":
        obligations += [("base case", ["--init=Init", "--inv=IndInv", "--length=0"]),
                        ("invariant implies C11 safety", ["--init=IndInit", "--inv=Safe", "--length=0"])]
    done = []
    with Scratch("apa") as tmp:
        for name, args in obligations:
            try:
                p = subprocess.run(["apalache-mc", "check", *args, f"--out-dir={tmp}/out", str(SPEC / "apalache" / "MPInd.tla")],
                                   capture_output=True, text=True, timeout=900, cwd=str(tmp))
            except subprocess.TimeoutExpired:
                rep.notes.append(f"apalache obligation '{name}' timed out (not a verdict)")
                continue
            ok = "EXITCODE: OK" in p.stdout
            done.append({"obligation": name, "discharged": ok})
            if not ok and "The outcome is: Error" in p.stdout:
                rep.fail({"stage": "apalache", "obligation": name},
                         f"MPInd.tla: the inductive invariant of the reducer fails ({name})")
            elif not ok:
                raise Machinery(f"apalache failed on '{name}': {p.stdout[-600:]}")
    rep.cov["apalache_inductive_invariant"] = {"spec": "spec/apalache/MPInd.tla", "obligations": done,
                                               "meaning": "for any number of messages per worker, nb = 0 implies every "
                                                          "solution of every worker has been yielded exactly once"}


def c11(tier, seed, replay):
    rep = Report("C11", tier, "model_checking")
    recs, failures = mp.c11_pipeline(rep, tier, seed, jit=False)
    apalache_stage(rep, tier)
    for clause, case in failures:
        if clause.startswith("C11:"):
            rep.fail(case, f"{clause} mode={case['mode']} kind={case['kind']} arrival order={case['gets']} streams={case['streams']}")
    rep.add(rule="Scenarios: seeded random problems split on a variable into 1..3 parts (Problem.split), enumeration / "
                 "minimise / maximise; the real worker methods produce the message streams. TLC explores every "
                 "interleaving of puts and gets (MPSolver.tla) and enumerates every arrival order; each order is "
                 "replayed through the real parent loop and the run (yield sequence, result, per-worker statistics "
                 "slots, aggregated statistics, comparison with the sequential solver) is judged by TLC "
                 "(MPTrace.tla). Distinct = one (scenario, arrival order); non-trivial = at least one solution "
                 "message in the order.")
    rep.assumptions += ASSUME_C11
    return rep.finish()


def c18(tier, seed, replay):
    rep = Report("C18", tier, "fault_enumeration")
    env = nucs_env(jit=False)
    with Scratch("c18") as tmp:
        # ---- design level: with crashes, the parent never waits forever (detection design of the fix)
        sc = tmp / "sc.ndjson"
        sc.write_text("\n".join(json.dumps(x) for x in [
            {"id": 1, "mode": "solve", "streams": [[0, 0], [0], []]},
            {"id": 2, "mode": "min", "streams": [[5, 3], [6, 2], [3]]},
            {"id": 3, "mode": "max", "streams": [[5], [], [7, 9]]},
            {"id": 4, "mode": "solve", "streams": [[0, 0, 0]]},
            {"id": 5, "mode": "solve", "streams": [[0], [0], [0], [0]]}]) + "\n")
        r = run_tlc("MPSolver", "MP_faults_detect.cfg", env={"SCENARIOS": str(sc)}, workers=NCPU, timeout=1800, scratch=tmp)
        model_ok = not r.error
        if r.error and not r.invariant_violated:
            raise Machinery("TLC failed on MPSolver/MP_faults_detect: " + r.error)
        # negative control: the blocking-read design (no detection) must violate C18_NoHang
        rc = run_tlc("MPSolver", "MP_faults_pinned.cfg", env={"SCENARIOS": str(sc)}, workers=NCPU, timeout=1800, scratch=tmp)
        if not rc.temporal_violated:
            raise Machinery("negative control failed: the blocking-read design satisfies C18_NoHang in the model")
        rep.cov["model_checking"] = {"spec": "spec/MPSolver.tla", "config": "MP_faults_detect.cfg (Crash(w) enabled, "
                                     "ParentRaise on a dead unfinished worker; property C18_NoHang under weak fairness)",
                                     "distinct_states": r.distinct, "states_generated": r.generated, "holds": model_ok,
                                     "negative_control": "MP_faults_pinned.cfg (blocking read, no detection): C18_NoHang violated, as expected"}
        rep.add(states=r.distinct, transitions=r.generated)
        # ---- the real code under fault injection
        faults = mp.fault_plan(seed, tier)
        outs = run_workers("mp_worker.py", [{"kind": "fault", "faults": [f]} for f in faults], env, tmp, timeout=120, nproc=NCPU)
        res = list(read_ndjson(outs))
        if len(res) != len(faults):
            raise Machinery(f"fault runs: {len(res)} results for {len(faults)} scenarios")
        kinds = {}
        for x in res:
            f = faults[x["id"]]
            control = f["kill_before"] == 99
            kinds[x["outcome"] + ("/control" if control else "")] = kinds.get(x["outcome"] + ("/control" if control else ""), 0) + 1
            case = {"P": f["sc"]["P"], "k": f["sc"]["k"], "mode": f["sc"]["mode"], "victim": f["victim"],
                    "kill_before_message": f["kill_before"], "way_of_dying": f.get("how", "exit3"), "earlier_calls_on_the_same_solver": f.get("prior", 0)}
            if x["outcome"] == "deadline":
                rep.fail(case, f"parent still blocked {x['wall']}s after worker {f['victim']} of {f['sc']['k']} died before "
                               f"message {f['kill_before']} by {f.get('how', 'exit3')} ({f['sc']['mode']}, {f.get('prior', 0)} earlier call(s) on the same solver)")
            elif control and x["outcome"] != "returned":
                rep.fail(case, f"control run without a crash did not return: {x['outcome']} {x['raised']}")
        if not model_ok:
            rep.fail({"stage": "model"}, "MPSolver.tla with crash detection violates C18_NoHang: " + (r.error or "")[:300])
        rep.add(evaluations=len(res), distinct_nontrivial=sum(1 for f in faults if f["kill_before"] != 99),
                samples=[{"workers": f["sc"]["k"], "mode": f["sc"]["mode"], "victim": f["victim"],
                          "killed_before_message": f["kill_before"], "outcome": x["outcome"], "raised": x["raised"],
                          "wall_s": x["wall"]} for f, x in list(zip(faults, sorted(res, key=lambda y: y["id"])))[:6]])
        rep.cov["outcomes"] = kinds
    rep.add(rule="Fault enumeration on real processes: workers 1..3 (thorough: 1..4) x victim x death point (before the "
                 "first message, between two messages, before a later message / the completion marker; 99 = no crash, "
                 "control) x enumeration / minimisation x 0..2 earlier undisturbed calls on the same solver object; the victim dies before queuing the chosen message (os._exit(3), os._exit(0), SIGKILL, an exception escaping the worker, sys.exit(0) - in rotation) "
                 "(injected through the fork-inherited queue wrapper, no source hook). Allowed outcomes within the "
                 "25 s deadline: returned or raised. Distinct non-trivial = scenarios with a real crash.",
            exhaustive=True)
    rep.assumptions += ["death points are message boundaries (a kill in the middle of a pipe write is not injected)",
                        "start method fork (the default of this platform)"]
    return rep.finish()
