"""C19: exceeding a configured capacity is reported, never silently corrupting."""
import json
import random
import subprocess
from concurrent.futures import ThreadPoolExecutor

import engine
import mc
from common import HARNESS, NCPU, PY, Machinery, Report, Scratch, nucs_env, validate_shards, warm_jit


def scenarios(tier, seed):
    r = random.Random(seed * 101 + 7)
    hs = [1, 2, 3, 4, 5, 6, 9, 127, 128, 253, 254, 255, 256, 257, 300, 512, 1000]
    out = []
    for h in hs:
        for dn in (-2, -1, 0, 1, 2, 3):   # up to and beyond the spare levels
            for dh in (0, 1, 2, 3):
                n = (h + dn) if dh != 3 else max(1, (h + dn) // 2)
                if n < 1 or n > 320:
                    n = min(max(n, 1), 300)
                for jit in (False, True):
                    out.append({"n": n, "h": h, "dh": dh, "jit": jit})
    uniq = {json.dumps(x, sort_keys=True): x for x in out}
    out = list(uniq.values())
    if tier == "quick":
        r.shuffle(out)
        keep = [x for x in out if x["h"] in (253, 254, 255, 256)]       # the edge of the 8-bit stack pointer, completely
        out = keep + [x for x in out if x not in keep][:70]
    for k, x in enumerate(out):
        x["rid"] = k
    return out


def limit_scenarios(tier):
    """Problems around the 8/16-bit index types of Problem.init (harness/cap_limits.py)."""
    L = 65535
    out = []
    for size in (L - 1, L, L + 1, L + 2, 70000, 2 * L + 7):
        out.append(("unary", size))
        out.append(("unary_mixed", size - 2))
    for size in (32764, 32768, 33024):
        out.append(("params2", size))
        out.append(("positions2", size))
    out += [("params3", 21844), ("params3", 21848), ("params_tail", 65532), ("params_tail", 65536 - 4),
            ("positions1", 65534), ("positions1", 65540)]
    for size in (L - 1, L, L + 1, L + 2, L + 3, 70000):
        out.append(("domains", size))
    out += [("views", 70000), ("views", 131080), ("algorithms", 255), ("algorithms", 256), ("algorithms", 257), ("algorithms", 300)]
    scs = []
    for name, size in out:
        for jit in (True, False):
            # an ACCEPTED problem with 65 535 constraints takes minutes when interpreted: thorough tier only
            if not jit and tier == "quick" and name in ("unary", "unary_mixed") and size <= L:
                continue
            scs.append({"kind": "limit", "name": name, "size": size, "jit": jit})
    return scs


def c19(tier, seed, replay):
    rep = Report("C19", tier, "model_checking")
    warm_jit()
    scs = scenarios(tier, seed)
    for x in scs:
        x["kind"] = "stack"
    lim = limit_scenarios(tier)
    for k, x in enumerate(lim):
        x.update({"rid": len(scs) + k, "n": 0, "h": 0, "dh": 0})
    scs = scs + lim
    with Scratch("cap") as tmp:
        def one(x):
            out = tmp / f"cap-{x['rid']}.json"
            if x["kind"] == "stack":
                cmd = [PY, str(HARNESS / "cap_worker.py"), str(x["n"]), str(x["h"]), str(x["dh"]), str(out)]
            else:
                cmd = [PY, str(HARNESS / "cap_limits.py"), x["name"], str(x["size"]), str(out)]
            try:
                p = subprocess.run(cmd, env=nucs_env(jit=x["jit"]), capture_output=True, text=True,
                                   timeout=300 if tier == "quick" else 1500)
                rc = p.returncode
            except subprocess.TimeoutExpired:
                rc = 0
            rec = json.load(open(out)) if out.exists() else {"outcome": "deadline"}
            rec.update({"rid": x["rid"], "exit": rc, "n": x["n"], "h": x["h"], "dh": x["dh"], "kind": x["kind"]})
            for f, d in (("count", 0), ("distinct", True), ("indomain", True), ("depth", -1), ("full", False), ("first_ok", True),
                         ("expected", -1), ("valid", True), ("raised", "")):
                rec.setdefault(f, d)
            rec.pop("first", None)
            rec.pop("name", None)
            rec.pop("size", None)
            return rec

        with ThreadPoolExecutor(max_workers=NCPU) as ex:
            recs = list(ex.map(one, scs))
        verdicts, judged, st, tr = validate_shards("Capacity", "Capacity.cfg", "CAPACITY_RUNS", recs, tmp, shards=4)
    seen = set()
    for rid, clause in verdicts:
        if (rid, clause) in seen:
            continue
        seen.add((rid, clause))
        x = scs[rid]
        if x["kind"] == "limit":
            rep.fail({"scenario": x["name"], "size": x["size"], "mode": "compiled" if x["jit"] else "interpreted", "clause": clause},
                     f"{clause}: index-type limit scenario {x['name']}({x['size']}), {'compiled' if x['jit'] else 'interpreted'} "
                     f"-> outcome={recs[rid]['outcome']} count={recs[rid]['count']} expected={recs[rid]['expected']} "
                     f"valid={recs[rid]['valid']} exit={recs[rid]['exit']}")
            continue
        rep.fail({"n": x["n"], "height": x["h"], "dh": x["dh"], "mode": "compiled" if x["jit"] else "interpreted", "clause": clause},
                 f"{clause}: {x['n']} free variables, stack_max_height={x['h']}, value heuristic {x['dh']}, "
                 f"{'compiled' if x['jit'] else 'interpreted'} -> {recs[rid]}")
    outcomes = {}
    for x in recs:
        outcomes[x["outcome"]] = outcomes.get(x["outcome"], 0) + 1
    rep.add(evaluations=len(recs), traces_validated_against_impl=judged, states=st, transitions=tr,
            distinct_nontrivial=sum(1 for x in recs if x["outcome"] in ("raised", "refused") or x["count"] > 1),
            samples=[{k: x[k] for k in ("n", "h", "dh", "outcome", "count", "depth", "exit", "raised")} for x in recs[:: max(1, len(recs) // 5)][:5]])
    rep.cov["sweep_outcomes"] = outcomes
    rep.cov["index_type_limit_scenarios"] = {
        "scenarios": len(lim),
        "outcomes": {f"{x['name']}({x['size']}) {'compiled' if x['jit'] else 'interpreted'}": recs[x["rid"]]["outcome"]
                     + (":" + recs[x["rid"]]["raised"] if recs[x["rid"]]["raised"] else "") for x in lim}}
    # engine traces with tiny stacks (Layer A: the search never continues above the configured height)
    engine.report_engine(rep, tier, seed, "C19", ("C19:",), "with stacks of 1..5 levels the search either fits or "
                         "stops with the capacity error right after the push that does not fit")
    mc.report_mc(rep, "C19", tier, seed)
    rep.cov["rule"] = ("SWEEP: stack heights 1..6, 9, 127, 128, 253..257, 300, 512, 1000 x searches needing height-2 .. "
                       "height+1 levels x the four branching value heuristics x both execution modes, one process per "
                       "scenario (exit status observed), judged by spec/Capacity.tla. ENGINE TRACES: " + rep.cov["rule"])
    rep.cov["rule"] += (" INDEX-TYPE LIMITS: problems just below, at and above what the 8/16-bit arrays of Problem.init can "
                        "represent (cumulated constraint positions, cumulated parameters, number of constraints, of domains, "
                        "of views, of registered algorithms), each with a known solution set, one process per scenario and "
                        "mode: a refusal or exactly the right solutions.")
    return rep.finish()
