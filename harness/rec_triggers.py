"""Record the trigger masks the real get_triggers_* functions declare.  argv: job.json out.ndjson"""
import json
import sys

import numpy as np

import nucs.propagators.propagators as pp

ALG = {k[4:].lower(): getattr(pp, k) for k in dir(pp) if k.startswith("ALG_")}
job = json.load(open(sys.argv[1]))
with open(sys.argv[2], "w") as fh:
    for it in job["items"]:
        masks = pp.GET_TRIGGERS_FCTS[ALG[it["alg"]]](it["n"], np.array(it["params"], dtype=np.int32))
        it["masks"] = [int(x) for x in masks]
        fh.write(json.dumps(it) + "\n")
