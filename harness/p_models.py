"""C20: the shipped models yield only valid combinatorial objects, with the known counts / optima."""
import json
import random

from common import NCPU, Machinery, Report, Scratch, nucs_env, read_ndjson, run_workers_resilient, validate_shards, warm_jit

SUDOKU1 = [[0, 0, 0, 0, 3, 0, 0, 0, 0], [2, 8, 9, 0, 0, 0, 0, 0, 0], [0, 0, 5, 7, 0, 0, 0, 9, 0], [0, 0, 0, 0, 0, 0, 8, 0, 6],
           [0, 0, 0, 3, 0, 0, 1, 0, 0], [7, 1, 0, 0, 0, 6, 0, 0, 2], [0, 6, 3, 0, 0, 0, 0, 0, 0], [0, 0, 0, 0, 4, 0, 2, 0, 0],
           [0, 0, 1, 0, 5, 0, 6, 0, 0]]
KNAP = [[40, 40, 38, 38, 36, 36, 34, 34, 32, 32, 30, 30], [40, 40, 38, 38, 36, 36, 34, 34, 32, 32, 30, 30], 55]
TSP4 = [[0, 2, 1, 2], [2, 0, 2, 1], [1, 2, 0, 2], [2, 1, 2, 0]]
TSP5 = [[0, 3, 4, 2, 7], [3, 0, 4, 6, 3], [4, 4, 0, 5, 8], [2, 6, 5, 0, 6], [7, 3, 8, 6, 0]]
TSP4A = [[0, 9, 1, 8], [2, 0, 7, 1], [9, 1, 0, 3], [1, 6, 2, 0]]                       # asymmetric
TSP5A = [[0, 2, 9, 9, 1], [8, 0, 3, 9, 7], [9, 6, 0, 1, 2], [4, 9, 7, 0, 5], [3, 1, 8, 6, 0]]
SB = {"bibd", "golomb", "golomb_bounded", "magic_square", "quasigroup", "quasigroup5", "schur", "sts"}
CFGS = [{"ca": 0, "vh": 0, "dh": 0}, {"ca": 1, "vh": 0, "dh": 0}, {"ca": 0, "vh": 1, "dh": 1}, {"ca": 0, "vh": 2, "dh": 3},
        {"ca": 0, "vh": 1, "dh": 2}]


def instances(tier):
    q = [("queens", [n], "solve") for n in (1, 2, 3, 4, 5, 6, 7, 8)]
    q += [("latin_square", [list(range(n))], "solve") for n in (1, 2, 3, 4)] + [("latin_square", [[1, 2, 3]], "solve")]
    q += [("latin_square_rc", [n], "solve") for n in (1, 2, 3, 4)]
    q += [("quasigroup", [n], "solve") for n in (1, 2, 3, 4, 5)]
    q += [("quasigroup5", [n], "solve") for n in (5, 6, 7)]
    q += [("magic_square", [n], "solve") for n in (2, 3)]
    q += [("magic_sequence", [n], "solve") for n in (3, 4, 5, 6, 7, 8, 10, 16, 30)]
    q += [("golomb", [n], "min") for n in (3, 4, 5, 6)]
    q += [("golomb_bounded", [4, 7], "solve"), ("golomb_bounded", [5, 11], "solve"), ("golomb_bounded", [5, 13], "solve"),
          ("golomb_bounded", [6, 17], "solve")]
    q += [("bibd", [6, 10, 5, 3, 2], "solve"), ("bibd", [7, 7, 3, 3, 1], "solve")]
    # parameter sets that violate the counting identities v*r = b*k or l*(v-1) = r*(k-1): no design exists
    q += [("bibd", [2, 3, 2, 1, 1], "solve"), ("bibd", [3, 4, 2, 2, 1], "solve"), ("bibd", [4, 4, 2, 2, 1], "solve")]
    q += [("schur", [n], "solve") for n in (3, 5, 7, 9, 13, 14)]
    q += [("knapsack", KNAP, "max"), ("circuit", [2], "solve"), ("circuit", [3], "solve"), ("circuit", [4], "solve"),
          ("circuit", [5], "solve"), ("circuit", [6], "solve"), ("tsp", [TSP4], "min"), ("tsp", [TSP5], "min"), ("tsp", [TSP4A], "min"), ("tsp", [TSP5A], "min"),
          ("sts", [4], "solve"), ("sts", [6], "solve"), ("sudoku", [SUDOKU1], "solve"), ("donald", [], "solve"), ("alpha", [], "solve")]
    if tier == "thorough":
        q += [("queens", [9], "solve"), ("queens", [10], "solve"), ("magic_square", [4], "solve"), ("golomb", [7], "min"),
              ("golomb", [8], "min"), ("quasigroup5", [8], "solve"), ("magic_sequence", [100], "solve"), ("schur", [11], "solve"),
              ("bibd", [8, 14, 7, 4, 3], "solve"), ("bibd", [7, 8, 4, 3, 2], "solve"), ("circuit", [7], "solve"), ("sts", [8], "solve")]
    return q


def items(tier, seed):
    r = random.Random(seed * 17 + 1)
    out = []
    gid = 0
    for name, args, mode in instances(tier):
        gid += 1
        sbs = [True, False] if name in SB else [False]
        heavy = name in ("alpha", "sts", "bibd", "quasigroup5", "sudoku") or (name == "magic_square" and args[0] >= 4)
        cfgs = CFGS[:1] if heavy else (CFGS[:3] if tier == "quick" else CFGS)
        for sb in sbs:
            for cfg in cfgs:
                if heavy and not sb and name in ("bibd", "sts", "quasigroup5") and tier == "quick":
                    stop = 300       # without symmetry breaking: validate the first 300 objects only
                else:
                    stop = 10 ** 9
                it = {"name": name, "args": args, "sb": sb, "cfg": cfg, "mode": mode, "procs": 1, "gid": gid, "stop": stop}
                out.append(it)
        if name in ("queens", "latin_square") and mode == "solve" and (args[0] if name == "queens" else len(args[0])) >= 4:
            for procs in (2, 3):
                out.append({"name": name, "args": args, "sb": False, "cfg": CFGS[0], "mode": mode, "procs": procs, "gid": gid, "stop": 10 ** 9})
        if name in ("golomb", "golomb_bounded"):
            for sb in (True, False):
                out.append({"name": name, "args": args, "sb": sb, "cfg": {"ca": 0, "vh": 0, "dh": 0, "golomb_ca": True}, "mode": mode,
                            "procs": 1, "gid": gid, "stop": 10 ** 9})
    for k, it in enumerate(out):
        it["rid"] = k
    return out


def c20(tier, seed, replay):
    rep = Report("C20", tier, "model_checking")
    warm_jit()
    its = items(tier, seed)
    with Scratch("models") as tmp:
        order = sorted(its, key=lambda it: -len(json.dumps(it["args"])))
        outs, killed = run_workers_resilient("rec_models.py", [{"items": order[k::NCPU]} for k in range(NCPU) if order[k::NCPU]],
                                             nucs_env(jit=True), tmp, item_timeout=120.0 if tier == "quick" else 900.0)
        res = {o["rid"]: o for o in read_ndjson(outs)}
        recs = []
        for it in its:
            o = res.get(it["rid"])
            if o is None:
                o = {"ok": "skip", "sols": [], "count": 0, "full": False, "none": True, "opt": 0}
            recs.append({"rid": it["rid"], "name": it["name"], "args": it["args"], "sb": bool(it["sb"]), "mode": it["mode"],
                         "ok": "raised" if o["ok"].startswith("raised") else o["ok"], "sols": o["sols"], "count": o["count"],
                         "full": o["full"], "none": o["none"], "opt": o["opt"], "gid": it["gid"]})
        for x in recs:
            x["group"] = [{"count": y["count"], "full": y["full"], "sb": y["sb"], "none": y["none"], "opt": y["opt"]}
                          for y in recs if y["gid"] == x["gid"] and y["rid"] != x["rid"] and y["ok"] == "ok"]
        verdicts, judged, st, tr = validate_shards("Models", "Models.cfg", "MODEL_RUNS", recs, tmp, timeout=2400)
    seen = set()
    for rid, clause in verdicts:
        if (rid, clause) in seen:
            continue
        seen.add((rid, clause))
        it = its[rid]
        rep.fail({"name": it["name"], "args": it["args"], "sb": it["sb"], "cfg": it["cfg"], "procs": it["procs"], "clause": clause},
                 f"{clause}: {it['name']}{it['args']} symmetry_breaking={it['sb']} cfg={it['cfg']} processes={it['procs']} "
                 f"-> count={recs[rid]['count']} opt={recs[rid]['opt']} ok={res.get(rid, {}).get('ok')}")
    rep.add(evaluations=len(recs), traces_validated_against_impl=judged, states=st, transitions=tr,
            distinct_nontrivial=sum(1 for x in recs if x["ok"] == "ok" and x["count"] > 0),
            samples=[{"model": x["name"], "args": str(x["args"])[:60], "sb": x["sb"], "count": x["count"], "opt": x["opt"],
                      "first": x["sols"][0] if x["sols"] else None} for x in recs[:: max(1, len(recs) // 5)][:5]])
    import engine
    engine.model_trace_stage(rep, tier, seed, ("C01:", "C02:", "C03:optimal", "C08:custom-algorithm"))
    rep.cov["objects_validated"] = sum(len(x["sols"]) for x in recs)
    rep.cov["runs_skipped_by_watchdog"] = sum(1 for x in recs if x["ok"] == "skip")
    rep.cov["models"] = sorted({x["name"] for x in recs})
    rep.add(rule="Every shipped model (queens, latin square with and without the row/column models, quasigroup QG5, magic "
                 "square, magic sequence, Golomb ruler incl. its custom consistency algorithm, BIBD, Schur's lemma, "
                 "knapsack, circuit, TSP, sports tournament scheduling, sudoku, donald, alpha) built by its real "
                 "constructor at the sizes within reach, symmetry breaking on and off, bound consistency and shaving, "
                 "several heuristics, 1..3 processes; run by the real compiled solver. TLC (spec/Models.tla) validates "
                 "every object against a definition-level predicate written from the problem statement, compares counts "
                 "and optima with the literature (or its own brute force for knapsack / TSP), and compares the runs of "
                 "one instance with each other. Non-trivial = a run that produced at least one object.")
    rep.assumptions += ["runs beyond the watchdog are skipped, not judged; without symmetry breaking the first 300 objects "
                        "of BIBD / STS / QG5 are validated in the quick tier (no count)",
                        "literature values: n-queens counts, numbers of latin squares, magic squares (880 / 7040 for order "
                        "4), magic sequences, optimal Golomb rulers, Schur number S(3)=13"]
    return rep.finish()
