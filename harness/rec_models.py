"""Worker for C20: run the shipped models (real constructors) with the real solvers.
argv: job.json out.ndjson ; item = {rid, name, args, sb (bool|None), cfg, mode, procs, cap}"""
import json
import sys
import time

import models
from nucs.solvers.backtrack_solver import BacktrackSolver
from nucs.solvers.multiprocessing_solver import MultiprocessingSolver

SB_MODELS = {"bibd", "golomb", "golomb_bounded", "magic_square", "quasigroup", "quasigroup5", "schur", "sts"}
OBJ = {"golomb": ("min", "length_idx"), "knapsack": ("max", "weight")}


def run(it):
    name, args = it["name"], list(it["args"])
    full_args = args + ([bool(it["sb"])] if name in SB_MODELS else [])
    prob = models.build(name, full_args)
    cfg = it.get("cfg", {})
    kw = dict(consistency_alg_idx=cfg.get("ca", 0), var_heuristic_idx=cfg.get("vh", 0), dom_heuristic_idx=cfg.get("dh", 0),
              log_level="ERROR")
    if name == "tsp":
        kw["decision_domains"] = list(range(len(args[0])))
    if name in ("golomb", "golomb_bounded") and cfg.get("golomb_ca"):
        from nucs.examples.golomb.golomb_problem import golomb_consistency_algorithm
        from nucs.solvers.consistency_algorithms import register_consistency_algorithm
        kw["consistency_alg_idx"] = register_consistency_algorithm(golomb_consistency_algorithm)
    procs = it.get("procs", 1)
    if procs > 1:
        solver = MultiprocessingSolver([BacktrackSolver(p, **kw) for p in prob.split(procs, 0)], log_level="ERROR")
    else:
        solver = BacktrackSolver(prob, **kw)
    out = {"ok": "ok", "sols": [], "count": 0, "full": True, "none": True, "opt": 0}
    mode = it["mode"]
    if mode == "solve":
        cap = it.get("cap", 1200)
        for x in solver.solve():
            out["count"] += 1
            if len(out["sols"]) < cap:
                out["sols"].append([int(v) for v in x])
            if out["count"] >= it.get("stop", 10 ** 9):
                out["full"] = False
                break
    else:
        var = it["var"] if "var" in it else (len(prob.shr_domains_lst) - 1 if name == "tsp" else int(getattr(prob, OBJ[name][1])))
        r = solver.minimize(var) if mode == "min" else solver.maximize(var)
        if r is not None:
            out["none"] = False
            out["opt"] = int(r[var])
            out["sols"] = [[int(v) for v in r]]
            out["count"] = 1
    return out


def main():
    job = json.load(open(sys.argv[1]))
    with open(sys.argv[2], "w") as fh:
        for it in job["items"]:
            t0 = time.time()
            try:
                o = run(it)
            except Exception as e:  # noqa
                o = {"ok": "raised:" + type(e).__name__ + ":" + str(e)[:60], "sols": [], "count": 0, "full": False, "none": True, "opt": 0}
            o.update({"rid": it["rid"], "wall": round(time.time() - t0, 2)})
            fh.write(json.dumps(o, separators=(",", ":")) + "\n")
            fh.flush()


if __name__ == "__main__":
    main()
