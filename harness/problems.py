"""Problems as plain data: generators (seeded random, small exhaustive families), JSON <-> nucs.Problem.

A problem is a dict
   {"doms": [[lo,hi],...]      shared domains
    "vidx": [...], "voff": [...]  variable -> (shared domain index, offset)
    "props": [{"vars": [...], "alg": "<name>", "params": [...]}]   in POSTED order}
Algorithms are named by the suffix of ALG_* in lower case, exactly as in spec/Constraints.tla.
Every generated constraint respects Constraints!InContract on the *views* (domain + offset); TLC re-checks it
(NucsAbs!WellFormed), so a generator bug is a machinery failure, never a silent scope reduction.
"""
from __future__ import annotations

import itertools
import random

HULL_ALGS = {"and", "affine_geq", "affine_leq", "alldifferent", "count_eq", "element_iv", "element_liv",
             "element_lic", "exactly_eq", "exactly_true", "gcc", "lexicographic_leq", "max_eq", "max_leq",
             "min_eq", "min_geq", "relation"}
ALL_ALGS = sorted(HULL_ALGS | {"affine_eq", "no_sub_cycle", "scc", "dummy"})

CONSISTENCY = {"bc": 0, "shaving": 1}
VAR_HEUR = {"first": 0, "smallest": 1, "greatest": 2, "max_regret": 3}
DOM_HEUR = {"min": 0, "max": 1, "split_low": 2, "mid": 3, "min_cost": 4}


def box_size(doms):
    s = 1
    for lo, hi in doms:
        s *= max(0, hi - lo + 1)
    return s


def views(P, vars_):
    return [(P["doms"][P["vidx"][v]][0] + P["voff"][v], P["doms"][P["vidx"][v]][1] + P["voff"][v]) for v in vars_]


# ----------------------------------------------------------------------------- random problems


def _mk_constraint(r: random.Random, P, alg):
    """Return {"vars","alg","params"} in contract for P, or None when alg cannot be posted on P."""
    nv = len(P["vidx"])
    allv = list(range(nv))

    def pick(kmin, kmax, repeat_ok=True, pred=None):
        cand = [v for v in allv if pred is None or pred(views(P, [v])[0])]
        if not cand:
            return None
        k = r.randint(kmin, kmax)
        if repeat_ok and r.random() < 0.2:
            return [r.choice(cand) for _ in range(k)]
        if len(cand) < kmin:
            return None
        k = min(k, len(cand))
        return r.sample(cand, k)

    boolean = lambda iv: iv[0] >= 0 and iv[1] <= 1  # noqa: E731
    if alg in ("affine_eq", "affine_geq", "affine_leq"):
        vs = pick(1, 4)
        cs = [r.choice([-3, -2, -1, -1, 0, 1, 1, 2, 3]) for _ in vs]
        vw = views(P, vs)
        mid = sum(c * ((lo + hi) // 2) for c, (lo, hi) in zip(cs, vw))
        return {"vars": vs, "alg": alg, "params": cs + [mid + r.randint(-3, 3)]}
    if alg == "alldifferent":
        vs = pick(2, 5)
        return vs and {"vars": vs, "alg": alg, "params": []}
    if alg == "and":
        vs = pick(2, 4, pred=boolean)
        return vs and len(vs) >= 2 and {"vars": vs, "alg": alg, "params": []}
    if alg == "count_eq":
        vs = pick(2, 5)
        if not vs or len(vs) < 2:
            return None
        vw = views(P, vs[:-1])
        a = r.randint(min(lo for lo, _ in vw) - 1, max(hi for _, hi in vw) + 1)
        return {"vars": vs, "alg": alg, "params": [a]}
    if alg == "dummy":
        vs = pick(1, 3)
        return {"vars": vs, "alg": alg, "params": []}
    if alg == "element_iv":
        vs = pick(2, 2)
        if not vs or len(vs) != 2:
            return None
        (ilo, ihi), (vlo, vhi) = views(P, vs)
        m = max(1, min(6, ihi + r.randint(-1, 2)))
        return {"vars": vs, "alg": alg, "params": [r.randint(vlo - 1, vhi + 1) for _ in range(m)]}
    if alg == "element_lic":
        vs = pick(2, 5)
        if not vs or len(vs) < 2:
            return None
        vw = views(P, vs[:-1])
        return {"vars": vs, "alg": alg, "params": [r.randint(min(lo for lo, _ in vw) - 1, max(hi for _, hi in vw) + 1)]}
    if alg == "element_liv":
        vs = pick(3, 5)
        return vs and len(vs) >= 3 and {"vars": vs, "alg": alg, "params": []}
    if alg == "exactly_eq":
        vs = pick(1, 5)
        vw = views(P, vs)
        a = r.randint(min(lo for lo, _ in vw) - 1, max(hi for _, hi in vw) + 1)
        return {"vars": vs, "alg": alg, "params": [a, r.randint(-1, len(vs) + 1) if r.random() < 0.15 else r.randint(0, len(vs))]}
    if alg == "exactly_true":
        vs = pick(1, 5, pred=boolean)
        return vs and {"vars": vs, "alg": alg, "params": [r.randint(0, len(vs))]}
    if alg == "gcc":
        vs = pick(1, 5)
        vw = views(P, vs)
        v0 = min(lo for lo, _ in vw) - r.choice([0, 0, 1])
        m = max(hi for _, hi in vw) - v0 + 1 + r.choice([0, 0, 1])
        if m > 7:
            return None
        ls = [r.choice([0, 0, 0, 1]) for _ in range(m)]
        # capacities: around the lower bound, the arity, or "unbounded" (far above anything reachable; their sum
        # does not fit 16 bits)
        us = [max(0, l + r.choice([-1, 0, 1, 2, 2, len(vs), 40000])) for l in ls]
        return {"vars": vs, "alg": alg, "params": [v0] + ls + us}
    if alg == "lexicographic_leq":
        m = r.choice([1, 2, 2, 3])
        vs = pick(2 * m, 2 * m)
        if not vs or len(vs) % 2:
            return None
        return {"vars": vs, "alg": alg, "params": []}
    if alg in ("max_eq", "max_leq", "min_eq", "min_geq"):
        vs = pick(2, 5)
        return vs and len(vs) >= 2 and {"vars": vs, "alg": alg, "params": []}
    if alg == "relation":
        vs = pick(1, 3)
        vw = views(P, vs)
        rows = r.randint(1, 5)
        flat = []
        for _ in range(rows):
            flat += [r.randint(lo - 1, hi + 1) if r.random() < 0.2 else r.randint(lo, hi) for lo, hi in vw]
        return {"vars": vs, "alg": alg, "params": flat}
    raise ValueError(alg)


GENERAL_ALGS = ["affine_eq", "affine_geq", "affine_leq", "alldifferent", "and", "count_eq", "dummy", "element_iv",
                "element_lic", "element_liv", "exactly_eq", "exactly_true", "gcc", "lexicographic_leq", "max_eq",
                "max_leq", "min_eq", "min_geq", "relation"]
_WEIGHTS = {a: 3 for a in GENERAL_ALGS}
_WEIGHTS["dummy"] = 1
_WEIGHTS["affine_eq"] = 5
_WEIGHTS["affine_leq"] = 5


def random_problem(r: random.Random, cap: int = 600, flavour: str | None = None):
    """A random in-contract problem whose shared-domain box has at most `cap` points."""
    flavour = flavour or r.choice(["int", "int", "int", "bool", "circuit", "alias", "alias"])
    for _ in range(200):
        if flavour == "circuit":
            P = _circuit_problem(r)
        elif flavour == "triple":
            P = _triple_problem(r)
        else:
            nd = r.randint(1, 5) if flavour != "bool" else r.randint(2, 6)
            doms = []
            for _ in range(nd):
                if flavour == "bool":
                    a = r.choice([0, 0, 0, 1])
                    doms.append([a, r.choice([a, 1])] if a == 0 else [1, 1])
                    if r.random() < 0.75:
                        doms[-1] = [0, 1]
                else:
                    a = r.randint(-3, 3)
                    doms.append([a, a + r.choice([0, 1, 1, 2, 2, 3, 4])])
            vidx = list(range(nd))
            voff = [0] * nd
            if flavour == "alias" or r.random() < 0.15:
                for _ in range(r.randint(1, 2)):
                    vidx.append(r.randrange(nd))
                    voff.append(r.choice([-2, -1, 0, 1, 1, 2]))
            P = {"doms": doms, "vidx": vidx, "voff": voff, "props": []}
            algs = [a for a in GENERAL_ALGS]
            w = [_WEIGHTS[a] for a in algs]
            for _ in range(r.choice([1, 1, 2, 2, 2, 3, 3, 4])):
                for _try in range(10):
                    c = _mk_constraint(r, P, r.choices(algs, w)[0])
                    if c:
                        P["props"].append(c)
                        break
        if P["props"] and box_size(P["doms"]) <= cap:
            return P
    raise RuntimeError("generator failed")


def _triple_problem(r):
    """3-4 variables on domains of 3-4 values, 1-2 constraints: deep enough for two nested three-way splits."""
    nd = r.choice([3, 3, 4])
    doms = []
    for _ in range(nd):
        a = r.choice([-2, -1, 0, 0, 1])
        doms.append([a, a + r.choice([2, 2, 3])])
    P = {"doms": doms, "vidx": list(range(nd)), "voff": [0] * nd, "props": []}
    algs = ["exactly_eq", "count_eq", "affine_leq", "affine_geq", "affine_eq", "alldifferent", "max_leq", "min_geq",
            "max_eq", "min_eq", "lexicographic_leq", "element_lic", "element_liv", "relation", "gcc", "element_iv"]
    for _ in range(r.choice([1, 1, 2])):
        for _try in range(10):
            c = _mk_constraint(r, P, r.choice(algs))
            if c:
                P["props"].append(c)
                break
    return P


def _circuit_problem(r):
    n = r.randint(2, 5)
    doms = []
    for i in range(n):
        a = r.randint(0, n - 1)
        b = r.randint(a, n - 1)
        doms.append([0, n - 1] if r.random() < 0.7 else [a, b])
    P = {"doms": doms, "vidx": list(range(n)), "voff": [0] * n, "props": []}
    vs = list(range(n))
    P["props"].append({"vars": vs, "alg": "alldifferent", "params": []})
    kind = r.choice(["nsc", "nsc", "scc", "both"])
    if kind in ("nsc", "both"):
        P["props"].append({"vars": vs, "alg": "no_sub_cycle", "params": []})
    if kind in ("scc", "both"):
        P["props"].append({"vars": vs, "alg": "scc", "params": []})
    if r.random() < 0.3:  # a second sub-cycle constraint on the same variables (C04: common GROUND watchers)
        P["props"].append({"vars": vs, "alg": "no_sub_cycle", "params": []})
    if r.random() < 0.4:
        c = _mk_constraint(r, P, r.choice(["affine_leq", "affine_geq", "max_leq", "lexicographic_leq", "element_iv"]))
        if c:
            P["props"].append(c)
    r.shuffle(P["props"])
    return P


# ----------------------------------------------------------------------------- small exhaustive family (shared with NucsMech)

CATALOG_2 = (
    [("affine_leq", [a, b, c]) for a in (-1, 1, 2) for b in (-1, 1) for c in (0, 1, 2)]
    + [("affine_geq", [a, b, c]) for a in (1, 2) for b in (-1, 1) for c in (0, 2)]
    + [("affine_eq", [a, b, c]) for a in (1, 2) for b in (-1, 1, 2) for c in (0, 1, 3)]
    + [("alldifferent", []), ("max_leq", []), ("min_geq", []), ("max_eq", []), ("min_eq", []),
       ("lexicographic_leq", []), ("count_eq", [1]), ("element_iv", [0, 2, 1]), ("element_iv", [1, 1]),
       ("element_lic", [1]), ("exactly_eq", [1, 1]), ("exactly_eq", [0, 2]), ("relation", [0, 1, 1, 2, 2, 0]),
       ("relation", [1, 1]), ("gcc", [0, 0, 0, 0, 1, 1, 2]), ("gcc", [0, 1, 0, 0, 1, 2, 2]), ("dummy", [])]
)


def small_family(variant: int = 0):
    """Exhaustive: 2 shared domains subset of 0..2, variables (d0, d1[, d0+off]), 1-2 constraints of CATALOG_2."""
    ivs = [(a, b) for a in range(0, 3) for b in range(a, 3)]
    for d1 in ivs:
        for d2 in ivs:
            for c1 in CATALOG_2:
                yield {"doms": [list(d1), list(d2)], "vidx": [0, 1], "voff": [0, 0],
                       "props": [{"vars": [0, 1], "alg": c1[0], "params": list(c1[1])}]}


# ----------------------------------------------------------------------------- configurations


def random_config(r: random.Random, P, allow_cost=True, ca=None):
    nonneg = all(lo >= 0 for lo, _ in P["doms"])
    width = max(hi for _, hi in P["doms"]) + 1 if nonneg else 0
    vh = r.choice([0, 0, 1, 2, 3 if (nonneg and allow_cost) else 1])
    dh = r.choice([0, 0, 1, 2, 3, 4 if (nonneg and allow_cost) else 3])
    cfg = {"ca": r.choice([0, 0, 1]) if ca is None else ca, "vh": vh, "dh": dh, "height": 64}
    if r.random() < 0.25 and len(P["doms"]) > 1:      # every domain is a decision domain, listed in another order
        dec = list(range(len(P["doms"])))
        r.shuffle(dec)
        cfg["decision"] = dec
    if vh == 3:
        # max_regret only ranks the domains: null costs (ignored values, as on the diagonal of the shipped TSP matrices)
        # are in contract for it; min_cost must always find a positive cost, so its tables stay positive
        zeros = r.random() < 0.5
        cfg["vparams"] = [[r.choice([0, 0, 1, 2, 3]) if zeros else r.randint(1, 3) for _ in range(width)] for _ in P["doms"]]
    if dh == 4:
        cfg["dparams"] = [[r.randint(1, 3) for _ in range(width)] for _ in P["doms"]]
    return cfg


def all_configs(P, r: random.Random | None = None):
    r = r or random.Random(0)
    nonneg = all(lo >= 0 for lo, _ in P["doms"])
    width = max(hi for _, hi in P["doms"]) + 1 if nonneg else 0
    for ca, vh, dh in itertools.product((0, 1), (0, 1, 2, 3), (0, 1, 2, 3, 4)):
        if (vh == 3 or dh == 4) and not nonneg:
            continue
        cfg = {"ca": ca, "vh": vh, "dh": dh, "height": 64}
        if vh == 3:
            cfg["vparams"] = [[r.randint(1, 3) for _ in range(width)] for _ in P["doms"]]
        if dh == 4:
            cfg["dparams"] = [[r.randint(1, 3) for _ in range(width)] for _ in P["doms"]]
        yield cfg


# ----------------------------------------------------------------------------- to nucs


def to_nucs(P):
    """Build a nucs Problem (imports nucs lazily: this module is also used by pure-Python tooling)."""
    import nucs.propagators.propagators as pp
    from nucs.problems.problem import Problem

    prob = Problem([tuple(d) for d in P["doms"]], list(P["vidx"]), list(P["voff"]))
    for c in P["props"]:
        prob.add_propagator((list(c["vars"]), getattr(pp, "ALG_" + c["alg"].upper()), list(c["params"])))
    return prob


def to_nucs_incremental(P, r=None):
    """The same model written through the incremental API: the first shared domains through the constructor, the
    remaining variables one by one (add_variable with an explicit index and offset when the variable shares an existing
    domain - the API then appends a placeholder domain, given here as a singleton), constraints through add_propagators."""
    import random as _random

    import nucs.propagators.propagators as pp
    from nucs.problems.problem import Problem

    r = r or _random.Random(0)
    nd = len(P["doms"])
    # variables 0..nd-1 are the shared domains themselves in every generated problem
    k0 = r.randint(1, nd)
    prob = Problem([tuple(d) for d in P["doms"][:k0]])
    for v in range(k0, nd):
        if r.random() < 0.5:
            prob.add_variable(tuple(P["doms"][v]))
        else:
            prob.add_variables([tuple(P["doms"][v])])
    for v in range(nd, len(P["vidx"])):
        prob.add_variable((0, 0), P["vidx"][v], P["voff"][v])       # shares domain vidx[v]; (0, 0) is the placeholder
    props = [(list(c["vars"]), getattr(pp, "ALG_" + c["alg"].upper()), list(c["params"])) for c in P["props"]]
    cut = r.randint(0, len(props))
    for pr in props[:cut]:
        prob.add_propagator(pr)
    prob.add_propagators(props[cut:])
    return prob


def alg_names():
    import nucs.propagators.propagators as pp

    return {getattr(pp, k): k[4:].lower() for k in dir(pp) if k.startswith("ALG_")}


def from_nucs(prob, names=None):
    """Describe an initialised nucs Problem (propagators in their CURRENT, i.e. sorted, order)."""
    names = names or alg_names()
    return {"doms": [[int(a), int(b)] for a, b in prob.shr_domains_lst],
            "vidx": [int(x) for x in prob.dom_indices_lst], "voff": [int(x) for x in prob.dom_offsets_lst],
            "props": [{"vars": [int(v) for v in pr[0]], "alg": names[pr[1]], "params": [int(x) for x in pr[2]]}
                      for pr in prob.propagators]}


STAT_LABELS = ["ALG_BC_NB", "ALG_BC_WITH_SHAVING_NB", "ALG_SHAVING_NB", "ALG_SHAVING_CHANGE_NB", "ALG_SHAVING_NO_CHANGE_NB",
               "PROPAGATOR_ENTAILMENT_NB", "PROPAGATOR_FILTER_NB", "PROPAGATOR_FILTER_NO_CHANGE_NB", "PROPAGATOR_INCONSISTENCY_NB",
               "SOLVER_BACKTRACK_NB", "SOLVER_CHOICE_NB", "SOLVER_CHOICE_DEPTH", "SOLVER_SOLUTION_NB"]


def user_stats(solver):
    """The statistics AS RETURNED TO THE USER (get_statistics(), by documented label), in the order the specifications
    use - not the engine's internal array, whose layout is not part of any property."""
    d = solver.get_statistics()
    return [int(d[k]) for k in STAT_LABELS]


def canon_stats(arr):
    """A raw statistics array of the engine (as the workers send it to the parent) in the order of STAT_LABELS, whatever
    the engine's own layout: the index of each label is read from nucs.constants (STATS_IDX_<label>)."""
    import nucs.constants as K
    return [int(arr[getattr(K, "STATS_IDX_" + lab)]) for lab in STAT_LABELS]


def engine_stats(canon):
    """Inverse of canon_stats: a statistics array in the engine's own layout."""
    import numpy as np
    import nucs.constants as K
    n = max(getattr(K, "STATS_MAX", 0), 1 + max(getattr(K, "STATS_IDX_" + lab) for lab in STAT_LABELS))
    arr = np.zeros(n, dtype=np.int64)
    for lab, v in zip(STAT_LABELS, canon):
        arr[getattr(K, "STATS_IDX_" + lab)] = v
    return arr
