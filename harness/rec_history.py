"""Worker for C15: execute operation histories inside ONE interpreter (mode chosen by the environment).
argv: job.json out.ndjson ; job = {"histories": [{"rid", "ops": [[op, a, b], ...]}], "templates": n, "configs": [...]}
One output line per history: {"rid", "ops", "obs": [{sols, ended, meaning_ok, raised, stats}]}"""
import json
import sys

import nucs.heuristics.heuristics as hh
import nucs.propagators.propagators as pp
import nucs.solvers.consistency_algorithms as ca
from nucs.problems.problem import Problem
from nucs.solvers.backtrack_solver import BacktrackSolver

import problems


def _var_heuristic_factory(from_the_end):
    """Two heuristics from ONE factory (same module, same qualified name, different behaviour)."""
    from nucs.constants import MAX, MIN

    def choose(params, decision_domains, shr_domains_stack, stacks_top):
        top = stacks_top[0]
        n = len(decision_domains)
        for k in range(n):
            dom_idx = decision_domains[n - 1 - k] if from_the_end else decision_domains[k]
            if shr_domains_stack[top, dom_idx, MIN] < shr_domains_stack[top, dom_idx, MAX]:
                return dom_idx
        return -1

    return choose


CUSTOM = {}


def custom_first_heuristic():
    """Registers (once per process) a 'last non-instantiated' and then a 'first non-instantiated' heuristic built by the
    same factory; returns the index of the second, which must behave exactly like the built-in first_not_instantiated."""
    if "first" not in CUSTOM:
        from numba import njit
        CUSTOM["last"] = hh.register_var_heuristic(njit(_var_heuristic_factory(True)))
        CUSTOM["first"] = hh.register_var_heuristic(njit(_var_heuristic_factory(False)))
    return CUSTOM["first"]


NT_BASE = 4


def template(t):
    if t > NT_BASE:     # part b of split(2, variable 0) of a base template, made from a fresh problem object
        base, b = divmod(t - NT_BASE - 1, 2)
        return template(base + 1).split(2, 0)[b]
    if t == 1:
        from nucs.examples.queens.queens_problem import QueensProblem
        return QueensProblem(5)
    if t == 2:
        from nucs.examples.magic_sequence.magic_sequence_problem import MagicSequenceProblem
        return MagicSequenceProblem(4)
    if t == 3:
        # 4 shared domains (the last one instantiated from the start), 5 variables (variable 3 is a view of domain 0)
        p = Problem([(0, 2), (-1, 2), (0, 3), (1, 1)], [0, 1, 2, 0, 3], [0, 0, 0, 1, 0])
        p.add_propagator(([0, 1, 2], pp.ALG_ALLDIFFERENT, []))
        p.add_propagator(([3, 2], pp.ALG_AFFINE_LEQ, [1, -1, 0]))
        p.add_propagator(([0, 1], pp.ALG_LEXICOGRAPHIC_LEQ, []))
        p.add_propagator(([1, 2, 3], pp.ALG_MAX_EQ, []))
        p.add_propagator(([4, 2], pp.ALG_AFFINE_LEQ, [1, -1, 0]))
        return p
    if t == 4:   # a SIBLING of template 3: the same algorithms, arities and domains, other parameters (signs, constants) -
        p = Problem([(0, 2), (-1, 2), (0, 3), (1, 1)], [0, 1, 2, 0, 3], [0, 0, 0, 1, 0])   # anything cached per "shape" shows here
        p.add_propagator(([0, 1, 2], pp.ALG_ALLDIFFERENT, []))
        p.add_propagator(([3, 2], pp.ALG_AFFINE_LEQ, [-1, 1, 0]))
        p.add_propagator(([1, 0], pp.ALG_LEXICOGRAPHIC_LEQ, []))
        p.add_propagator(([1, 2, 3], pp.ALG_MAX_EQ, []))
        p.add_propagator(([4, 2], pp.ALG_AFFINE_LEQ, [-1, 1, 0]))
        return p
    raise ValueError(t)


def config(c, prob):
    nd = len(prob.shr_domains_lst)
    if c == 1:
        return {}
    if c == 2:
        return dict(consistency_alg_idx=ca.CONSISTENCY_ALG_SHAVING, var_heuristic_idx=hh.VAR_HEURISTIC_SMALLEST_DOMAIN,
                    dom_heuristic_idx=hh.DOM_HEURISTIC_MAX_VALUE)
    if c == 3:
        width = max(int(d[1]) for d in prob.shr_domains_lst) + 1
        lo = min(int(d[0]) for d in prob.shr_domains_lst)
        if lo < 0:   # cost tables are indexed by value
            return dict(var_heuristic_idx=hh.VAR_HEURISTIC_GREATEST_DOMAIN, dom_heuristic_idx=hh.DOM_HEURISTIC_MID_VALUE)
        cost = [[1 + (3 * d + 2 * v) % 4 for v in range(width)] for d in range(nd)]
        return dict(var_heuristic_idx=hh.VAR_HEURISTIC_MAX_REGRET, var_heuristic_params=cost,
                    dom_heuristic_idx=hh.DOM_HEURISTIC_MIN_COST, dom_heuristic_params=cost)
    if c == 4:   # a custom registered clone of the default variable heuristic: same results as configuration 1
        return dict(var_heuristic_idx=custom_first_heuristic())
    raise ValueError(c)


def meaning(prob):
    cons = sorted((tuple(int(v) for v in pr[0]), int(pr[1]), tuple(int(x) for x in pr[2])) for pr in prob.propagators)
    return (tuple(tuple(int(x) for x in d) for d in prob.shr_domains_lst), tuple(int(x) for x in prob.dom_indices_lst),
            tuple(int(x) for x in prob.dom_offsets_lst), tuple(cons))


def register(k):
    if k == 1:
        from nucs.propagators.dummy_propagator import compute_domains_dummy, get_complexity_dummy, get_triggers_dummy
        pp.register_propagator(get_triggers_dummy, get_complexity_dummy, compute_domains_dummy)
    elif k == 2:
        hh.register_var_heuristic(hh.first_not_instantiated_var_heuristic)
    elif k == 3:
        hh.register_dom_heuristic(hh.min_value_dom_heuristic)
    else:
        from nucs.solvers.bound_consistency_algorithm import bound_consistency_algorithm
        ca.register_consistency_algorithm(bound_consistency_algorithm)


SHARED = {}     # (template, configuration) -> the keyword arguments, built ONCE per process and handed to every solver


def shared_config(t, c, prob):
    """The caller's own objects (the list of decision domains, the cost tables) are reused from one solver to the next,
    as a user would: a constructor that modifies them changes the configuration of every later solver."""
    if (t, c) not in SHARED:
        kw = config(c, prob)
        if c in (2, 3):
            kw["decision_domains"] = list(range(len(prob.shr_domains_lst)))      # the default, spelled out
        SHARED[(t, c)] = (kw, json.dumps(kw, sort_keys=True, default=str))
    return SHARED[(t, c)]


def execute(ops):
    probs, solvers, gens = [], [], []
    obs = []
    for op, a, b in ops:
        o = {"sols": [], "ended": False, "meaning_ok": True, "args_ok": True, "raised": "", "stats": []}
        try:
            if op == "newproblem":
                probs.append(template(a))
                probs[-1].verif_template = a
            elif op == "split":
                part = probs[a - 1].split(2, 0)[b - 1]
                part.verif_template = NT_BASE + 2 * (probs[a - 1].verif_template - 1) + b
                probs.append(part)
            elif op == "newsolver":
                prob = probs[a - 1]
                before = meaning(prob)
                kw, pristine = shared_config(prob.verif_template, b, prob)
                s = BacktrackSolver(prob, log_level="ERROR", **kw)
                o["meaning_ok"] = meaning(prob) == before
                o["args_ok"] = json.dumps(kw, sort_keys=True, default=str) == pristine
                solvers.append(s)
                gens.append(s.solve())
            elif op == "step":
                try:
                    o["sols"] = [[int(v) for v in next(gens[a - 1])]]
                except StopIteration:
                    o["ended"] = True
                    o["stats"] = problems.user_stats(solvers[a - 1])
            elif op == "drain":
                o["sols"] = [[int(v) for v in x] for x in gens[a - 1]]
                o["ended"] = True
                o["stats"] = problems.user_stats(solvers[a - 1])
            elif op == "abandon":
                gens[a - 1].close()
            elif op == "register":
                register(a)
        except Exception as e:  # noqa
            o["raised"] = type(e).__name__ + ":" + str(e)[:80]
        obs.append(o)
    return obs


def main():
    job = json.load(open(sys.argv[1]))
    with open(sys.argv[2], "w") as fh:
        for h in job["histories"]:
            obs = execute(h["ops"])
            fh.write(json.dumps({"rid": h["rid"], "ops": [{"op": o[0], "a": o[1], "b": o[2]} for o in h["ops"]], "obs": obs},
                                separators=(",", ":")) + "\n")
            fh.flush()


if __name__ == "__main__":
    main()
