"""Record what the real Problem.init() builds.  argv: job.json out.ndjson ; job = {"items": [{"rid", "P"}]}"""
import json
import sys

import numpy as np

import nucs.propagators.propagators as pp
import problems

job = json.load(open(sys.argv[1]))
with open(sys.argv[2], "w") as fh:
    for it in job["items"]:
        P = it["P"]
        prob = problems.to_nucs(P)
        posted = [(tuple(pr[0]), pr[1], tuple(pr[2])) for pr in prob.propagators]
        ids = {id(pr): k for k, pr in enumerate(prob.propagators)}
        objs = list(prob.propagators)
        cx, masks = [], []
        for vars_, alg, params in posted:
            c = pp.GET_COMPLEXITY_FCTS[alg](len(vars_), list(params))
            cx.append(int(round(float(c) * 1000)))
            masks.append([int(x) for x in pp.GET_TRIGGERS_FCTS[alg](len(vars_), np.array(params, dtype=np.int32))])
        prob.init()
        order = [ids[id(pr)] for pr in prob.propagators]
        rec = {"rid": it["rid"], "nd": len(P["doms"]), "vidx": P["vidx"], "voff": P["voff"],
               "posted": [{"vars": list(v), "alg": int(a), "params": list(p)} for v, a, p in posted], "cx": cx, "masks": masks,
               "sorted": order, "trig": prob.triggers.tolist(), "pidx": [int(x) for x in prob.props_dom_indices],
               "poff": [int(x) for x in prob.props_dom_offsets.reshape(-1)]}
        fh.write(json.dumps(rec, separators=(",", ":")) + "\n")
