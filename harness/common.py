"""Shared machinery: environment, TLC runner, sharded trace validation, evidence, known findings.

The judge of every verdict is TLC; this module only feeds it and turns its verdict lines into
the interface lines (VIOLATION / KNOWN-FINDING) and the evidence file.
"""
from __future__ import annotations

import hashlib
import json
import os
import re
import shutil
import subprocess
import sys
import time
from concurrent.futures import ThreadPoolExecutor
from pathlib import Path

VERIF = Path(__file__).resolve().parent.parent
REPO = Path(os.environ.get("VERIF_REPO", "/repo"))
SPEC = VERIF / "spec"
HARNESS = VERIF / "harness"
PY = "/venv/bin/python"
CACHE = VERIF / ".cache"
NCPU = min(16, os.cpu_count() or 4)
TLC_CP = "/opt/veriftools/tla/tla2tools.jar:/opt/veriftools/tla/CommunityModules-deps.jar"


class Machinery(Exception):
    """The framework itself failed (exit 2) - never a verdict on the code."""


def seed() -> int:
    try:
        return int(os.environ.get("VERIF_SEED", "1"))
    except ValueError:
        return 1


def tree_hash() -> str:
    h = hashlib.sha256()
    for f in sorted((REPO / "nucs").rglob("*.py")):
        h.update(str(f.relative_to(REPO)).encode())
        h.update(f.read_bytes())
    return h.hexdigest()[:20]


_TREE = None


def nucs_env(jit: bool = False, boundscheck: bool = False, extra: dict | None = None) -> dict:
    """Environment for a subprocess that imports the working tree of /repo."""
    global _TREE
    if _TREE is None:
        _TREE = tree_hash()
    env = dict(os.environ)
    env["PYTHONPATH"] = f"{REPO}:{HARNESS}"
    env["PYTHONHASHSEED"] = "0"
    env["NUCS_VERIF"] = "1"
    env.pop("NUMBA_DISABLE_JIT", None)
    env.pop("NUMBA_BOUNDSCHECK", None)
    if not jit:
        env["NUMBA_DISABLE_JIT"] = "1"
    else:
        tag = _TREE + ("-bc" if boundscheck else "")
        cdir = CACHE / "numba" / tag
        cdir.mkdir(parents=True, exist_ok=True)
        env["NUMBA_CACHE_DIR"] = str(cdir)
        if boundscheck:
            env["NUMBA_BOUNDSCHECK"] = "1"
        prune_numba_caches(keep=tag.split("-")[0])
    env.setdefault("OMP_NUM_THREADS", "1")
    env.setdefault("NUMBA_NUM_THREADS", "1")
    if extra:
        env.update(extra)
    return env


def prune_numba_caches(keep: str) -> None:
    """Caches of other trees are removed only when they have not been used for an hour (another check may be running
    against another tree at this very moment: removing its cache makes its compiled workers fail), and beyond the 12 most
    recent ones."""
    root = CACHE / "numba"
    if not root.exists():
        return
    now = time.time()
    others = sorted((d for d in root.iterdir() if d.is_dir() and not d.name.startswith(keep)),
                    key=lambda d: d.stat().st_mtime, reverse=True)
    for k, d in enumerate(others):
        try:
            if k >= 12 or now - d.stat().st_mtime > 3600:
                shutil.rmtree(d, ignore_errors=True)
        except OSError:
            pass


def warm_jit(boundscheck: bool = False) -> float:
    """Make sure the compiled engine of the current tree is in the cache before parallel workers start."""
    t0 = time.time()
    p = subprocess.run([PY, str(HARNESS / "warm_jit.py")], env=nucs_env(jit=True, boundscheck=boundscheck),
                       capture_output=True, text=True, timeout=1200)
    if p.returncode != 0:
        raise Machinery(f"the compiled engine does not build / run: {p.stderr[-1500:]}")
    return time.time() - t0


class Scratch:
    """Scratch directory under /verif/.cache/tmp, removed at exit."""

    def __init__(self, name: str):
        self.path = CACHE / "tmp" / f"{name}-{os.getpid()}-{int(time.time()*1000)%100000}"

    def __enter__(self) -> Path:
        self.path.mkdir(parents=True, exist_ok=True)
        return self.path

    def __exit__(self, *a):
        if not os.environ.get("VERIF_KEEP"):
            shutil.rmtree(self.path, ignore_errors=True)


# --------------------------------------------------------------------------- TLC

_TUPLE_RE = re.compile(r'<<\s*"(VERDICT|JUDGED|INFO|SAMPLE|ORDER)"')


def _balanced_tuples(text: str):
    """Yield every top-level <<"TAG", ...>> printed by PrintT, by bracket matching (lines may wrap/interleave)."""
    for m in _TUPLE_RE.finditer(text):
        i = m.start()
        depth = 0
        j = i
        instr = False
        while j < len(text):
            ch = text[j]
            if ch == '"':
                instr = not instr
            elif not instr:
                if text.startswith("<<", j):
                    depth += 1
                    j += 1
                elif text.startswith(">>", j):
                    depth -= 1
                    j += 1
                    if depth == 0:
                        yield text[i : j + 1]
                        break
            j += 1


def _parse_tla_value(s: str):
    """Parse the small subset of TLA+ values our specs print: tuples, ints, strings, TRUE/FALSE."""
    s = s.strip()
    pos = 0

    def ws():
        nonlocal pos
        while pos < len(s) and s[pos] in " \n\r\t":
            pos += 1

    def val():
        nonlocal pos
        ws()
        if s.startswith("<<", pos):
            pos += 2
            out = []
            ws()
            if s.startswith(">>", pos):
                pos += 2
                return out
            while True:
                out.append(val())
                ws()
                if s.startswith(">>", pos):
                    pos += 2
                    return out
                if s[pos] == ",":
                    pos += 1
                else:
                    raise ValueError(f"bad tuple at {pos}: {s[pos:pos+20]!r}")
        if s[pos] == '"':
            j = pos + 1
            while s[j] != '"':
                j += 2 if s[j] == "\\" else 1
            r = s[pos + 1 : j]
            pos = j + 1
            return r
        m = re.match(r"-?\d+", s[pos:])
        if m:
            pos += m.end()
            return int(m.group())
        m = re.match(r"TRUE|FALSE", s[pos:])
        if m:
            pos += m.end()
            return m.group() == "TRUE"
        raise ValueError(f"cannot parse TLA value at {pos}: {s[pos:pos+30]!r}")

    return val()


class TlcResult:
    def __init__(self, rc, out, wall):
        self.rc = rc
        self.out = out
        self.wall = wall
        m = re.search(r"(\d+) states generated, (\d+) distinct states found", out)
        self.generated = int(m.group(1)) if m else 0
        self.distinct = int(m.group(2)) if m else 0
        self.tuples = []
        for t in _balanced_tuples(out):
            try:
                self.tuples.append(_parse_tla_value(t))
            except Exception:
                raise Machinery(f"unparsable TLC output tuple: {t[:200]}")
        self.error = None
        if "Error:" in out or rc not in (0,):
            m = re.search(r"Error:.*", out)
            self.error = (m.group(0) if m else f"exit {rc}") + "\n" + out[-1500:]

    @property
    def temporal_violated(self):
        return bool(re.search(r"Temporal propert(y|ies) .*violated", self.out))

    def tagged(self, tag):
        return [t[1:] for t in self.tuples if t and t[0] == tag]

    @property
    def invariant_violated(self):
        return bool(re.search(r"Invariant \S+ is violated|is violated|Temporal propert(y|ies) .*violated", self.out))


def run_tlc(module: str, cfg: str, env: dict | None = None, workers: int = 1, timeout: int = 1800,
            extra: list[str] | None = None, scratch: Path | None = None, deadlock: bool = False,
            java_opts: list[str] | None = None) -> TlcResult:
    """Run TLC on spec/<module>.tla with config file spec/<cfg> (or an absolute path)."""
    own = None
    if scratch is None:
        own = Scratch("tlc")
        scratch = own.__enter__()
    try:
        meta = scratch / f"meta-{module}-{time.time_ns()}"
        cfgp = cfg if os.path.isabs(cfg) else str(SPEC / cfg)
        heap = ["-Xmx3g"] if workers == 1 else ["-Xmx12g"]     # 16 single-worker shards run side by side
        cmd = ["java", "-XX:+UseParallelGC", "-Xss16m"] + heap + (java_opts or []) + ["-cp", TLC_CP, "tlc2.TLC",
               "-workers", str(workers), "-metadir", str(meta), "-noGenerateSpecTE", "-config", cfgp]
        if extra:
            cmd += extra
        cmd.append(str(SPEC / f"{module}.tla"))
        e = dict(os.environ)
        if env:
            e.update({k: str(v) for k, v in env.items()})
        t0 = time.time()
        try:
            p = subprocess.run(cmd, cwd=str(SPEC), env=e, capture_output=True, text=True, timeout=timeout)
        except subprocess.TimeoutExpired:
            raise Machinery(f"TLC timed out after {timeout}s on {module}")
        shutil.rmtree(meta, ignore_errors=True)
        return TlcResult(p.returncode, p.stdout + p.stderr, time.time() - t0)
    finally:
        if own:
            own.__exit__()


def validate_shards(module: str, cfg: str, envkey: str, records: list[dict], scratch: Path,
                    shards: int = NCPU, timeout: int = 1800, extra_env: dict | None = None):
    """Split records into shards, run one single-worker TLC per shard in parallel.

    Returns (verdicts, judged, states, transitions) where verdicts is a list of tuples (without tag).
    Every shard must print <<"JUDGED", n>> with n = its number of records, else the machinery failed.
    """
    if not records:
        return [], 0, 0, 0
    shards = max(1, min(shards, len(records)))
    parts = [records[k::shards] for k in range(shards)]
    files = []
    for k, part in enumerate(parts):
        f = scratch / f"{module}-shard{k}.ndjson"
        with open(f, "w") as fh:
            for r in part:
                fh.write(json.dumps(r, separators=(",", ":")) + "\n")
        files.append(f)

    def one(k):
        env = {envkey: str(files[k])}
        if extra_env:
            env.update(extra_env)
        return run_tlc(module, cfg, env=env, workers=1, timeout=timeout, scratch=scratch)

    with ThreadPoolExecutor(max_workers=NCPU) as ex:
        results = list(ex.map(one, range(shards)))
    verdicts, judged, st, tr = [], 0, 0, 0
    for k, r in enumerate(results):
        if r.error:
            raise Machinery(f"TLC failed on shard {k} of {module}: {r.error}")
        j = r.tagged("JUDGED")
        got = sum(x[0] for x in j) if j else 0
        if got != len(parts[k]):
            raise Machinery(f"{module} shard {k}: judged {got} of {len(parts[k])} records\n{r.out[-800:]}")
        judged += got
        verdicts += r.tagged("VERDICT")
        st += r.distinct
        tr += r.generated
    return verdicts, judged, st, tr


# --------------------------------------------------------------------------- worker pools


def run_workers(script: str, jobs: list[dict], env: dict, scratch: Path, timeout: int = 1500, nproc: int = NCPU):
    """Run harness/<script> once per job (job JSON on argv[1], output file argv[2]) in parallel."""
    outs = []

    def one(k):
        out = scratch / f"{Path(script).stem}-{k}.ndjson"
        jf = scratch / f"{Path(script).stem}-{k}.job.json"
        jf.write_text(json.dumps(jobs[k]))
        try:
            p = subprocess.run([PY, str(HARNESS / script), str(jf), str(out)], env=env, capture_output=True,
                               text=True, timeout=timeout, cwd=str(scratch))
        except subprocess.TimeoutExpired:
            raise Machinery(f"{script} job {k} timed out after {timeout}s")
        if p.returncode != 0:
            raise Machinery(f"{script} job {k} failed rc={p.returncode}\n{p.stderr[-3000:]}")
        return out

    with ThreadPoolExecutor(max_workers=nproc) as ex:
        outs = list(ex.map(one, range(len(jobs))))
    return outs


def run_workers_resilient(script: str, jobs: list[dict], env: dict, scratch: Path, item_timeout: float = 120.0,
                          nproc: int = NCPU, key: str = "rid"):
    """Like run_workers for jobs of the form {"items": [...], ...}, but a worker that stops producing output lines
    for item_timeout seconds (compiled code cannot be interrupted from Python) is killed; the item it was working
    on is reported in the returned 'skipped' list and the remaining items are handed to a fresh worker.
    The worker must write (and flush) exactly one line per item, in order.  Returns (output paths, skipped items)."""
    skipped = []

    def one(k):
        outs = []
        items = list(jobs[k]["items"])
        part = 0
        while items:
            out = scratch / f"{Path(script).stem}-{k}-{part}.ndjson"
            jf = scratch / f"{Path(script).stem}-{k}-{part}.job.json"
            jf.write_text(json.dumps(dict(jobs[k], items=items)))
            p = subprocess.Popen([PY, str(HARNESS / script), str(jf), str(out)], env=env, stdout=subprocess.DEVNULL,
                                 stderr=subprocess.PIPE, text=True, cwd=str(scratch))
            last_n, last_t = 0, time.time()
            killed = False
            while p.poll() is None:
                time.sleep(0.5)
                n = 0
                if out.exists():
                    with open(out, "rb") as fh:
                        n = fh.read().count(b"\n")
                if n != last_n:
                    last_n, last_t = n, time.time()
                elif time.time() - last_t > item_timeout + (40 if last_n == 0 else 0):
                    p.kill()
                    killed = True
                    break
            p.wait()
            done = 0
            if out.exists():
                with open(out, "rb") as fh:
                    data = fh.read()
                done = data.count(b"\n")
                if not data.endswith(b"\n") and data:   # drop a partial last line
                    with open(out, "wb") as fh:
                        fh.write(data[: data.rfind(b"\n") + 1])
                outs.append(out)
            if killed:
                skipped.append(items[done])
                items = items[done + 1:]
            elif p.returncode != 0:
                err = p.stderr.read()[-3000:] if p.stderr else ""
                raise Machinery(f"{script} job {k} failed rc={p.returncode}\n{err}")
            else:
                items = []
            part += 1
        return outs

    with ThreadPoolExecutor(max_workers=nproc) as ex:
        res = list(ex.map(one, range(len(jobs))))
    return [o for outs in res for o in outs], skipped


def read_ndjson(paths):
    for p in paths:
        with open(p) as fh:
            for line in fh:
                line = line.strip()
                if line:
                    yield json.loads(line)


# --------------------------------------------------------------------------- known findings


def load_known(prop: str):
    f = VERIF / "known_findings.jsonl"
    out = []
    if f.exists():
        for line in f.read_text().splitlines():
            line = line.strip()
            if not line.startswith("{"):  # comments and 'fixed: ...' entries suppress nothing
                continue
            r = json.loads(line)
            if r.get("property") == prop and r.get("state") == "open":
                out.append(r)
    return out


def match_known(known: list[dict], case: dict) -> dict | None:
    """A finding matches a failing case when every key of finding['match'] equals the case's value
    (lists in the finding mean 'one of')."""
    for k in known:
        ok = True
        for key, want in k.get("match", {}).items():
            have = case.get(key)
            if isinstance(want, list) and not isinstance(have, list):
                ok = have in want
            else:
                ok = have == want
            if not ok:
                break
        if ok:
            return k
    return None


# --------------------------------------------------------------------------- reporting


class Report:
    def __init__(self, prop: str, tier: str, level: str):
        self.prop = prop
        self.tier = tier
        self.level = level
        self.t0 = time.time()
        self.cov: dict = {}
        self.assumptions: list[str] = []
        self.violations: list[dict] = []
        self.known_hits: dict = {}
        self.known = load_known(prop)
        self.notes: list[str] = []

    def fail(self, case: dict, what: str):
        """Register a failing case (must carry the keys known findings are matched on)."""
        k = match_known(self.known, case)
        if k is not None:
            self.known_hits.setdefault(k["id"], [k, 0])[1] += 1
        else:
            self.violations.append({"what": what, "case": case})

    def add(self, **kw):
        for k, v in kw.items():
            if isinstance(v, int) and isinstance(self.cov.get(k), int) and k not in ("exhaustive",):
                self.cov[k] += v
            elif isinstance(v, list) and isinstance(self.cov.get(k), list):
                self.cov[k] = (self.cov[k] + v)[:12]
            else:
                self.cov[k] = v

    def finish(self) -> int:
        # VERIF_OUT (set by tools/mutant.sh only): runs against a scratch tree leave /verif/evidence and /verif/out alone
        base = Path(os.environ["VERIF_OUT"]) if os.environ.get("VERIF_OUT") else VERIF
        out = base / "out"
        out.mkdir(parents=True, exist_ok=True)
        for kid, (k, n) in sorted(self.known_hits.items()):
            print(f"KNOWN-FINDING: property={self.prop} {k['what']} [{kid}; {n} case(s) this run]")
        rc = 0
        if self.violations:
            rc = 1
            rp = out / f"{self.prop}-replay.json"
            rp.write_text(json.dumps({"property": self.prop, "tier": self.tier, "seed": seed(),
                                      "violations": self.violations[:50]}, indent=1))
            for v in self.violations[:10]:
                print(f"  failing: {v['what']}  case={json.dumps(v['case'])[:600]}")
            print(f"VIOLATION property={self.prop} replay={rp}")
        cov = dict(self.cov)
        cov.setdefault("evaluations", 0)
        cov.setdefault("distinct_nontrivial", 0)
        cov.setdefault("rule", "")
        cov.setdefault("samples", [])
        cov["known_findings_hit"] = {k: n for k, (_, n) in self.known_hits.items()}
        if self.notes:
            cov["notes"] = self.notes
        ev = {"property_id": self.prop, "tier": self.tier, "seed": seed(), "level": self.level,
              "coverage": cov, "assumptions": self.assumptions, "wall_s": round(time.time() - self.t0, 2),
              "violations": len(self.violations)}
        (base / "evidence").mkdir(exist_ok=True)
        (base / "evidence" / f"{self.prop}.json").write_text(json.dumps(ev, indent=1) + "\n")
        print(f"{self.prop} [{self.tier}] evaluations={cov['evaluations']} distinct_nontrivial={cov['distinct_nontrivial']} "
              f"violations={len(self.violations)} known={sum(n for _, n in self.known_hits.values())} wall={ev['wall_s']}s")
        return rc
