"""C05 / C06 / C07 (call half) / C14: propagator contracts judged call by call by spec/Constraints.tla."""
from common import Report
from calls import report_calls, run_corpus, case_key


def _replay(prop, prefixes, path):
    import json
    from common import Scratch, nucs_env, run_workers, read_ndjson, validate_shards
    data = json.load(open(path))
    cases = [[v["case"]["alg"], v["case"]["params"], v["case"]["inbox"]] for v in data["violations"]]
    rc = 0
    with Scratch("replay") as tmp:
        outs = run_workers("rec_calls.py", [{"cases": cases}], nucs_env(), tmp)
        recs = list(read_ndjson(outs))
        slim = [{k: r[k] for k in ("id", "alg", "params", "inbox", "status", "outbox", "status2", "outbox2")} for r in recs]
        verdicts, *_ = validate_shards("CallTrace", "CallTrace.cfg", "CALLS", slim, tmp, shards=1)
        for rid, clause in verdicts:
            if clause.startswith(prefixes):
                print(f"replay: {clause} on {[r for r in recs if r['id']==rid][0]}")
                rc = 1
    if rc:
        print(f"VIOLATION property={prop} replay={path}")
    return rc


def _run(prop, prefixes, what, tier, seed, replay):
    if replay:
        return _replay(prop, prefixes, replay)
    rep = Report(prop, tier, "model_checking")
    report_calls(rep, tier, seed, prefixes, what, jit_too=(tier == "thorough"))
    rep.assumptions += [
        "brute-force supports are computed by TLC from spec/Constraints.tla (independent of the NuCS sources)",
        "scope: arities/windows of harness/scope.py; 32-bit overflow inside propagators is out of scope",
        "quick tier executes the interpreted mode only (same source as the compiled mode); thorough runs both",
    ]
    return rep.finish()


def c05(tier, seed, replay):
    return _run("C05", ("C05:",), "one filtering call keeps every support, stays inside the input box and "
                "fails only without support", tier, seed, replay)


def c06(tier, seed, replay):
    return _run("C06", ("C06:",), "ground tuples: inconsistency iff the relation is violated; a call that "
                "collapses a box to a point leaves a satisfying tuple", tier, seed, replay)


def c07(tier, seed, replay):
    return _run("C07", ("C07:",), "a call answers 'entailed' only if every tuple of the returned box satisfies",
                tier, seed, replay)


def c14(tier, seed, replay):
    return _run("C14", ("C14:",), "bound-consistent propagators return exactly the hull of the supports, fail "
                "exactly without support, are idempotent; affine_eq = one interval round", tier, seed, replay)
