"""The shipped models through their real constructors, exported as plain problems (used by C13 and C20).
Runs inside a nucs-importing interpreter (worker side) - see export_models.py for the command-line wrapper."""
import problems


def build(name, args):
    if name == "queens":
        from nucs.examples.queens.queens_problem import QueensProblem
        return QueensProblem(*args)
    if name == "magic_sequence":
        from nucs.examples.magic_sequence.magic_sequence_problem import MagicSequenceProblem
        return MagicSequenceProblem(*args)
    if name == "golomb":
        from nucs.examples.golomb.golomb_problem import GolombProblem
        return GolombProblem(*args)
    if name == "golomb_bounded":       # all rulers with the given number of marks and a length <= bound
        from nucs.examples.golomb.golomb_problem import GolombProblem
        marks, bound = args[0], args[1]
        prob = GolombProblem(marks, *args[2:])
        prob.shr_domains_lst[int(prob.length_idx)][1] = bound
        return prob
    if name == "knapsack":
        from nucs.examples.knapsack.knapsack_problem import KnapsackProblem
        return KnapsackProblem(*args)
    if name == "quasigroup":
        from nucs.examples.quasigroup.quasigroup_problem import QuasigroupProblem
        return QuasigroupProblem(*args)
    if name == "quasigroup5":
        from nucs.examples.quasigroup.quasigroup_problem import Quasigroup5Problem
        return Quasigroup5Problem(*args)
    if name == "latin_square":
        from nucs.problems.latin_square_problem import LatinSquareProblem
        return LatinSquareProblem(*args)
    if name == "latin_square_rc":
        from nucs.problems.latin_square_problem import LatinSquareRCProblem
        return LatinSquareRCProblem(*args)
    if name == "magic_square":
        from nucs.examples.magic_square.magic_square_problem import MagicSquareProblem
        return MagicSquareProblem(*args)
    if name == "bibd":
        from nucs.examples.bibd.bibd_problem import BIBDProblem
        return BIBDProblem(*args)
    if name == "schur":
        from nucs.examples.schur_lemma.schur_lemma_problem import SchurLemmaProblem
        return SchurLemmaProblem(*args)
    if name == "sts":
        from nucs.examples.sports_tournament_scheduling.sports_tournament_scheduling_problem import SportsTournamentSchedulingProblem
        return SportsTournamentSchedulingProblem(*args)
    if name == "circuit":
        from nucs.problems.circuit_problem import CircuitProblem
        return CircuitProblem(*args)
    if name == "tsp":
        from nucs.examples.tsp.tsp_problem import TSPProblem
        return TSPProblem(*args)
    if name == "sudoku":
        from nucs.examples.sudoku.sudoku_problem import SudokuProblem
        return SudokuProblem(*args)
    if name == "alpha":
        from nucs.examples.alpha.alpha_problem import AlphaProblem
        return AlphaProblem()
    if name == "donald":
        from nucs.examples.donald.donald_problem import DonaldProblem
        return DonaldProblem()
    raise ValueError(name)


def export(name, args):
    prob = build(name, args)
    D = problems.from_nucs(prob)
    extra = {}
    for attr in ("length_idx", "weight", "n"):
        if hasattr(prob, attr):
            extra[attr] = int(getattr(prob, attr))
    return D, extra
