"""C13: the solution set does not depend on how the model is written down.

TLC (spec/Rewrites.tla) applies the rewrites to the exported problems (and checks by brute force, on the small
ones, the lemma that each rewrite preserves the solutions); the real solver enumerates / optimises both models;
TLC judges the equality of the bags up to the renaming.
"""
import json
import random

import problems
from common import (NCPU, Machinery, Report, Scratch, nucs_env, read_ndjson, run_tlc, run_workers, run_workers_resilient,
                    validate_shards, warm_jit)

SHIFTABLE = {"alldifferent", "lexicographic_leq", "max_eq", "max_leq", "min_eq", "min_geq", "affine_eq", "affine_geq",
             "affine_leq", "exactly_eq", "relation", "gcc", "dummy"}
QUICK_MODELS = [["queens", [6]], ["queens", [7]], ["queens", [8]], ["magic_sequence", [8]], ["magic_sequence", [14]],
                ["golomb", [4]], ["golomb", [5]], ["quasigroup5", [5]], ["latin_square_rc", [3]], ["magic_square", [3]],
                ["schur", [6]], ["circuit", [5]], ["knapsack", [[40, 40, 38, 38, 36, 36], [40, 40, 38, 38, 36, 36], 115]],
                ["bibd", [6, 10, 5, 3, 2]], ["donald", []], ["alpha", []]]
THOROUGH_MODELS = QUICK_MODELS + [["queens", [9]], ["queens", [10]], ["magic_sequence", [50]], ["magic_sequence", [100]],
                                  ["golomb", [6]], ["golomb", [7]], ["quasigroup5", [7]], ["latin_square_rc", [4]],
                                  ["magic_square", [4]], ["schur", [9]], ["schur", [12]], ["circuit", [6]], ["circuit", [7]],
                                  ["bibd", [7, 7, 3, 3, 1]], ["sts", [6]]]
OBJECTIVE = {"golomb": "length_idx", "knapsack": "weight"}


def rewrites_for(P, r, small):
    nv, nc = len(P["vidx"]), len(P["props"])
    out = [{"kind": "unshare"}, {"kind": "incr"}, {"kind": "dup", "q": r.randrange(nc)},
           {"kind": "true", "q": r.randrange(4), "v": r.randrange(nv)}]
    perm = list(range(nc))
    r.shuffle(perm)
    out.append({"kind": "permc", "perm": perm})
    pv = list(range(nv))
    r.shuffle(pv)
    out.append({"kind": "permv", "perm": pv})
    if all(c["alg"] in SHIFTABLE for c in P["props"]):
        out.append({"kind": "shift", "delta": r.choice([-7, -2, -1, 1, 3, 10])})
    return out if small else out


def c13(tier, seed, replay):
    rep = Report("C13", tier, "model_checking")
    r = random.Random(seed * 4241 + 9)
    warm_jit()
    env = nucs_env(jit=True)
    with Scratch("rw") as tmp:
        # ---- inputs: random problems + the shipped models through their real constructors
        mods = QUICK_MODELS if tier == "quick" else THOROUGH_MODELS
        outs = run_workers("export_models.py", [{"models": mods}], env, tmp, timeout=600)
        exported = list(read_ndjson(outs))
        inputs = []
        nrand = 700 if tier == "quick" else 12000
        for _ in range(nrand):
            triple = r.random() < 0.5      # nested three-way splits: sensitive to the order of variables / constraints
            P = problems.random_problem(r, cap=500, flavour="triple" if triple else None)
            mode = r.choice(["solve", "solve", "min", "max"])
            var = r.randrange(len(P["vidx"]))
            for rw in r.sample(rewrites_for(P, r, True), 2):
                inputs.append(dict(rw, P=P, mode=mode, var=var, src="random", triple=triple))
        # ---- systematic: the objective is a VIEW (shared domain + offset); the same model with a separate variable
        #      linked by an equality must have the same optimum (and every other rewrite too)
        for off in (-3, -2, -1, 1, 2, 3):
            for lo, hi in ((0, 1), (0, 2), (0, 3), (1, 2), (1, 3), (2, 3), (1, 1)):
                # x0 in [0,3] restricted to lo..hi by two constraints, x1 free in [0,1]; objective = the view x0 + off
                P = {"doms": [[0, 3], [0, 1]], "vidx": [0, 1, 0], "voff": [0, 0, off],
                     "props": [{"vars": [0, 1], "alg": "affine_leq", "params": [1, 0, hi]},
                               {"vars": [0, 1], "alg": "affine_geq", "params": [1, 0, lo]}]}
                for mode in ("min", "max"):
                    for dh in (0, 1):       # the first solution is the best one or the worst one
                        rws = rewrites_for(P, r, True)
                        if tier == "quick":
                            rws = [rws[0]] + r.sample(rws[1:], 1)      # always the un-sharing rewrite
                        for rw in rws:
                            inputs.append(dict(rw, P=P, mode=mode, var=2, src="view-objective", triple=False, cfgP={"dh": dh}))
        for m in exported:
            P = m["P"]
            obj = OBJECTIVE.get(m["name"])
            mode, var = ("min" if m["name"] == "golomb" else "max", m["extra"][obj]) if obj else ("solve", 0)
            rws = rewrites_for(P, r, False)
            if tier == "quick":
                rws = r.sample(rws, 3)
            for rw in rws:
                inputs.append(dict(rw, P=P, mode=mode, var=var, src=m["name"] + str(m["args"])[:30]))
        for k, x in enumerate(inputs):
            x["rid"] = k
            for f, dflt in (("perm", []), ("q", 0), ("v", 0), ("delta", 0)):
                x.setdefault(f, dflt)
        # ---- stage 1: TLC rewrites (and proves the lemma on the small ones)
        fin, fout = tmp / "rw_in.ndjson", tmp / "rw_out.ndjson"
        shards = [inputs[k::NCPU] for k in range(NCPU) if inputs[k::NCPU]]
        Q = {}
        st = tr = 0
        from concurrent.futures import ThreadPoolExecutor

        def stage1(k):
            fi, fo = tmp / f"rw_in{k}.ndjson", tmp / f"rw_out{k}.ndjson"
            with open(fi, "w") as fh:
                for x in shards[k]:
                    fh.write(json.dumps({f: x[f] for f in ("rid", "P", "kind", "perm", "q", "v", "delta")}) + "\n")
            res = run_tlc("Rewrites", "Rewrites.cfg", env={"REWRITE_IN": str(fi), "REWRITE_OUT": str(fo), "REWRITE_STAGE": "rewrite"},
                          workers=1, timeout=2400, scratch=tmp)
            if res.error:
                raise Machinery("TLC failed in the rewrite stage: " + res.error)
            if res.tagged("VERDICT"):
                raise Machinery(f"a rewrite lemma fails on the specification itself: {res.tagged('VERDICT')[:3]}")
            return res, list(read_ndjson([fo]))

        with ThreadPoolExecutor(max_workers=NCPU) as ex:
            for res, qs in ex.map(stage1, range(len(shards))):
                st += res.distinct
                tr += res.generated
                for q in qs:
                    Q[q["rid"]] = q["Q"]
        if len(Q) != len(inputs):
            raise Machinery(f"rewrite stage produced {len(Q)} of {len(inputs)} problems")
        # ---- stage 2: the real solver on both models
        items = []
        for x in inputs:
            # the shipped models keep the default strategy (another one may need an astronomic search)
            cfgQ = ({"ca": r.choice([0, 0, 1]), "vh": r.choice([0, 1, 2]), "dh": r.choice([0, 1, 2, 3])}
                    if x["src"] in ("random", "view-objective") else {"ca": 0, "vh": 0, "dh": 0})
            if x.get("triple") and r.random() < 0.7:
                cfgQ["dh"] = 3
            varQ = x["perm"][x["var"]] if x["kind"] == "permv" else x["var"]
            items.append({"rid": x["rid"], "runs": [
                {"P": x["P"], "cfg": x.get("cfgP", {}), "mode": x["mode"], "var": x["var"]},
                {"P": Q[x["rid"]], "cfg": cfgQ, "mode": x["mode"], "var": varQ,
                 "build": "incremental" if x["kind"] == "incr" else "constructor"}]})
        items.sort(key=lambda it: -len(json.dumps(it["runs"][0]["P"])))
        outs, killed = run_workers_resilient("rec_rewrites.py", [{"items": items[k::NCPU], "timeout": 60.0} for k in range(NCPU) if items[k::NCPU]],
                                             env, tmp, item_timeout=45.0 if tier == "quick" else 240.0)
        byrid = {x["rid"]: x for x in inputs}
        recs, skipped = [], len(killed)
        for o in read_ndjson(outs):
            x = byrid[o["rid"]]
            a, b = o["res"]
            if a["ok"] == "skip" or b["ok"] == "skip":
                skipped += 1
                continue
            recs.append({"rid": x["rid"], "kind": x["kind"], "perm": x["perm"], "delta": x["delta"], "mode": x["mode"],
                         "solsP": a["sols"] if x["mode"] == "solve" else [], "solsQ": b["sols"] if x["mode"] == "solve" else [],
                         "optP": a["opt"], "optQ": b["opt"], "okP": a["ok"], "okQ": b["ok"]})
        if not recs:
            raise Machinery("no pair of runs completed")
        verdicts, judged, st2, tr2 = validate_shards("Rewrites", "Rewrites.cfg", "REWRITE_IN", recs, tmp,
                                                     extra_env={"REWRITE_STAGE": "judge", "REWRITE_OUT": str(fout)})
    seen = set()
    for rid, clause in verdicts:
        if (rid, clause) in seen:
            continue
        seen.add((rid, clause))
        x = byrid[rid]
        if clause.startswith("C13:"):
            rep.fail({"P": x["P"], "kind": x["kind"], "perm": x["perm"], "delta": x["delta"], "q": x["q"], "v": x["v"],
                      "mode": x["mode"], "var": x["var"], "clause": clause, "src": x["src"]},
                     f"{clause} rewrite={x['kind']} source={x['src']} mode={x['mode']} problem={json.dumps(x['P'])[:300]}")
    import engine
    engine.init_stage(rep, tier, seed, ("C13:",))
    kinds = {}
    for x in recs:
        kinds[x["kind"]] = kinds.get(x["kind"], 0) + 1
    rep.add(evaluations=len(inputs), traces_validated_against_impl=judged, states=st + st2, transitions=tr + tr2,
            distinct_nontrivial=sum(1 for x in recs if len(x["solsP"]) > 0 or x["optP"][0] == 0),
            samples=[{"rewrite": byrid[x["rid"]]["kind"], "source": byrid[x["rid"]]["src"], "mode": x["mode"],
                      "solutions": len(x["solsP"]), "optimum": x["optP"]} for x in recs[:: max(1, len(recs) // 5)][:5]])
    rep.cov["pairs_by_rewrite"] = kinds
    rep.cov["pairs_skipped_by_watchdog_or_solution_cap"] = skipped
    rep.cov["shipped_models"] = [m["name"] + str(m["args"])[:40] for m in exported]
    rep.add(rule="Inputs: seeded random problems (2 rewrites each) and the shipped models built by their real constructors "
                 "(queens, magic sequence, Golomb, quasigroup, latin square, magic square, Schur, circuit, knapsack, BIBD, "
                 "donald, alpha; larger sizes in the thorough tier). Rewrites: unshare, permute constraints, permute "
                 "variables, duplicate a constraint, add an always-true constraint, translate (translation-invariant "
                 "models). TLC computes the rewritten model (and proves the solution-preservation lemma by brute "
                 "force when the boxes have <= 3000 points); the real solver runs both models (the rewritten one under "
                 "a random configuration); TLC judges bag equality up to the renaming / equal optimum. Non-trivial = "
                 "the original model has a solution.")
    rep.assumptions += ["runs that exceed the watchdog (120 s) or 6000 solutions are skipped, not judged",
                        "all runs use the compiled engine (numba cache keyed by the hash of /repo/nucs)"]
    return rep.finish()
