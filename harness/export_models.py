"""argv: job.json out.ndjson ; job = {"models": [[name, args], ...]} -> one line per model {name, args, P, extra}"""
import json
import sys

import models

job = json.load(open(sys.argv[1]))
with open(sys.argv[2], "w") as fh:
    for name, args in job["models"]:
        P, extra = models.export(name, args)
        fh.write(json.dumps({"name": name, "args": args, "P": P, "extra": extra}, separators=(",", ":")) + "\n")
