"""Worker for the multiprocessing checks (C11 / C18).  Runs inside its own interpreter.

argv: job.json out.ndjson ;  job["kind"]:
  "streams"  : for each scenario build the real sub-solvers (Problem.split) and collect the REAL worker streams
               by running solve_and_queue / optimize_and_queue against an in-memory queue; also the sequential reference
  "replay"   : replay arrival orders through the REAL parent loop (MultiprocessingSolver.solve/optimize) with
               fake Queue/Process objects; one trace per order
  "real"     : real processes, recording the arrival order seen by the parent
  "fault"    : real processes, one worker killed before its k-th message; outcome within a deadline
"""
import json
import os
import sys
import threading
import time

import numpy as np

import nucs.solvers.multiprocessing_solver as mps
from nucs.solvers.backtrack_solver import BacktrackSolver

import problems


class ListQ:
    def __init__(self):
        self.items = []

    def put(self, x):
        w, sol, st = x
        self.items.append((int(w), None if sol is None else [int(v) for v in sol], problems.canon_stats(st)))


def make_solvers(sc):
    prob = problems.to_nucs(sc["P"])
    parts = prob.split(sc["k"], sc["split_var"])
    kw = dict(consistency_alg_idx=sc["cfg"].get("ca", 0), var_heuristic_idx=sc["cfg"].get("vh", 0),
              dom_heuristic_idx=sc["cfg"].get("dh", 0), log_level="ERROR")
    solvers = [BacktrackSolver(p, **kw) for p in parts]
    if sc.get("used"):
        for i, s in enumerate(solvers):
            try:
                if i % 3 == 0:
                    for k, _ in enumerate(s.solve()):
                        if k > 2000:
                            break
                elif i % 3 == 1:
                    next(s.solve(), None)
                else:
                    s.minimize(sc.get("var", 0))
            except Exception:  # noqa
                pass
            s.statistics.fill(0)      # the counters are observed relative to the start of the call under test
    return solvers, kw


def collect_streams(sc):
    solvers, kw = make_solvers(sc)
    streams = []
    actual = []
    for i, s in enumerate(solvers):
        q = ListQ()
        try:
            if sc["mode"] == "solve":
                s.solve_and_queue(i, q)
            elif sc["mode"] == "min":
                s.minimize_and_queue(sc["var"], i, q)
            else:
                s.maximize_and_queue(sc["var"], i, q)
        except Exception:  # noqa - a worker method that raises leaves a stream without its completion marker: the
            pass           # worker-protocol clause of the pipeline reports it (no machinery failure)
        streams.append(q.items)
        actual.append(problems.user_stats(s))      # what the worker's solver itself reports when it has finished
    ref = BacktrackSolver(problems.to_nucs(sc["P"]), **kw)
    if sc["mode"] == "solve":
        seq = [[int(v) for v in x] for x in ref.find_all()]
        opt = None
    else:
        r = ref.minimize(sc["var"]) if sc["mode"] == "min" else ref.maximize(sc["var"])
        seq = []
        opt = None if r is None else int(r[sc["var"]])
    return {"id": sc["id"], "streams": streams, "actual": actual, "seq": seq, "seqopt_none": opt is None, "seqopt": opt if opt is not None else 0}


class DummySolver:
    """Stands for a sub-solver in synthetic scenarios (the parent only passes its bound methods to Process)."""

    def solve_and_queue(self, *a):
        pass

    minimize_and_queue = maximize_and_queue = solve_and_queue


class FakeProcess:
    """A worker that never dies (the schedule decides what it has sent): the whole multiprocessing.Process reading
    interface a parent may use to watch it - is_alive(), exitcode, a sentinel that never becomes ready, join()."""
    exitcode = None
    pid = 0
    name = "fake"
    daemon = False

    def __init__(self, target=None, args=(), **kw):
        self._never = None

    def __del__(self):
        if self._never is not None:
            self._never[0].close()
            self._never[1].close()

    def start(self):
        pass

    def is_alive(self):
        return True

    def join(self, timeout=None):
        pass

    def terminate(self):
        pass

    kill = close = terminate

    @property
    def sentinel(self):
        if self._never is None:
            import multiprocessing
            self._never = multiprocessing.Pipe(duplex=False)      # one per worker, never written to: never ready
        return self._never[0]


def replay_one(sc, streams, order):
    """order = [[w, i], ...] (1-based worker, 1-based message).  Returns the observable behaviour of the parent."""
    gets = []

    class FakeQueue:
        def __init__(self, *a, **k):
            self.it = iter(order)
            self._pipe = None

        @property
        def _reader(self):
            # for a parent that waits on the queue's connection (multiprocessing.connection.wait): a real connection
            # that is readable exactly while the schedule still holds a message
            if self._pipe is None:
                import multiprocessing
                self._pipe = multiprocessing.Pipe(duplex=False)
                left = len(order) - len(gets)
                for _ in range(left):
                    self._pipe[1].send_bytes(b"m")
            return self._pipe[0]

        def __del__(self):
            if self._pipe is not None:
                self._pipe[0].close()
                self._pipe[1].close()

        def get(self, *a, **k):
            r = self._get(*a, **k)
            if self._pipe is not None and self._pipe[0].poll():
                self._pipe[0].recv_bytes()
            return r

        def _get(self, *a, **k):
            if getattr(self, "_peek", None) is not None:
                (w, i), self._peek = self._peek, None
            else:
                try:
                    w, i = next(self.it)
                except StopIteration:
                    if k.get("block", True) is False or (a and a[0] is False):
                        import queue
                        raise queue.Empty()
                    raise RuntimeError("parent read beyond the schedule")
            gets.append([w, i])
            m = streams[w - 1][i - 1]
            return (m[0], None if m[1] is None else np.array(m[1]), problems.engine_stats(m[2]))

        def get_nowait(self):
            # a parent that drains the queue without blocking sees the next scheduled message, if any
            import queue
            try:
                return self.get()
            except RuntimeError:
                raise queue.Empty()

        def put(self, x):
            pass

        def put_nowait(self, x):
            pass

        def empty(self):
            return self.peeked() is None

        def qsize(self):
            return 0 if self.peeked() is None else 1

        def peeked(self):
            if getattr(self, "_peek", None) is None:
                try:
                    self._peek = next(self.it)
                except StopIteration:
                    self._peek = None
                    return None
            return self._peek

        def close(self):
            pass

        def join_thread(self):
            pass

        def cancel_join_thread(self):
            pass

    solvers = [DummySolver() for _ in streams] if sc.get("synthetic") else make_solvers(sc)[0]
    mps.Queue = FakeQueue
    mps.Process = FakeProcess
    m = mps.MultiprocessingSolver(solvers, log_level="ERROR")
    out = {"gets": gets, "yields": [], "raised": "", "none": True, "ret": []}
    try:
        if sc["mode"] == "solve":
            for x in m.solve():
                out["yields"].append([int(v) for v in x])
        else:
            r = m.minimize(sc["var"]) if sc["mode"] == "min" else m.maximize(sc["var"])
            out["none"] = r is None
            out["ret"] = [] if r is None else [int(v) for v in r]
    except Exception as e:  # noqa
        out["raised"] = type(e).__name__ + ":" + str(e)[:80]
    out["agg"] = []
    if not out["raised"]:
        try:
            out["agg"] = problems.user_stats(m)
        except Exception as e:  # noqa: the aggregated statistics are part of the observable result
            out["agg"] = []
    return out


# ----------------------------------------------------------------------------- real processes


class LogQueue:
    """A real multiprocessing.Queue whose parent-side get() logs the arrival order and whose child-side put()
    can kill the process before its k-th message (fault injection).  The start method is fork: the object is
    inherited by the workers."""
    log = []
    victim = -1
    kill_before = -1
    how = "exit3"

    @staticmethod
    def die():
        """The ways a worker may end without its completion marker: a crash (non-zero status), a kill (signal), an
        exception escaping the worker function, and an exit with status 0 (e.g. sys.exit(0) from a signal handler)."""
        import signal
        if LogQueue.how == "exit0":
            os._exit(0)
        if LogQueue.how == "sigkill":
            os.kill(os.getpid(), signal.SIGKILL)
        if LogQueue.how == "sysexit0":
            os.close(2)            # keep the traceback-free exit quiet
            sys.exit(0)
        if LogQueue.how == "raise":
            os.close(2)
            raise RuntimeError("injected failure inside the worker")
        os._exit(3)

    def __init__(self, *a, **k):
        import multiprocessing
        self.q = multiprocessing.Queue()
        self.nput = 0

    def put(self, x):
        self.nput += 1
        if x[0] == LogQueue.victim and self.nput == LogQueue.kill_before:
            LogQueue.die()
        self.q.put((x[0], x[1], x[2].copy()))

    def get(self, *a, **k):
        x = self.q.get(*a, **k)
        LogQueue.log.append([int(x[0]) + 1, x[1] is None])
        return x

    def empty(self):
        return self.q.empty()

    def get_nowait(self):
        return self.get(block=False)

    def __getattr__(self, name):
        # anything else a parent may use of a multiprocessing.Queue (_reader, qsize, close, join_thread, ...)
        return getattr(self.__dict__["q"], name)


def real_run(sc, victim=-1, kill_before=-1, deadline=25.0, prior=0, how="exit3"):
    import importlib
    import multiprocessing
    importlib.reload(mps)
    LogQueue.log = []
    LogQueue.victim = victim
    LogQueue.kill_before = kill_before
    LogQueue.how = how
    mps.Queue = LogQueue
    solvers, _ = make_solvers(sc)
    m = mps.MultiprocessingSolver(solvers, log_level="ERROR")
    out = {"yields": [], "raised": "", "none": True, "ret": [], "agg": [], "outcome": "deadline"}

    def body():
        try:
            # earlier, undisturbed calls on the SAME MultiprocessingSolver object (history quantifier)
            LogQueue.victim = -1
            for k in range(prior):
                if (sc["mode"] == "solve") == (k % 2 == 0):
                    for _ in m.solve():
                        pass
                else:
                    m.minimize(sc["var"])
            LogQueue.victim = victim
            LogQueue.log = []
            if sc["mode"] == "solve":
                for x in m.solve():
                    out["yields"].append([int(v) for v in x])
            else:
                r = m.minimize(sc["var"]) if sc["mode"] == "min" else m.maximize(sc["var"])
                out["none"] = r is None
                out["ret"] = [] if r is None else [int(v) for v in r]
            if victim < 0:
                out["agg"] = problems.user_stats(m)
                out["finals"] = [problems.canon_stats(s) for s in m.statistics]
            out["outcome"] = "returned"
        except BaseException as e:  # noqa
            out["raised"] = type(e).__name__ + ":" + str(e)[:80]
            out["outcome"] = "raised"

    t = threading.Thread(target=body, daemon=True)
    t0 = time.time()
    t.start()
    t.join(deadline)
    out["wall"] = round(time.time() - t0, 2)
    out["arrivals"] = list(LogQueue.log)
    for c in multiprocessing.active_children():
        c.kill()
    return out


def main():
    job = json.load(open(sys.argv[1]))
    with open(sys.argv[2], "w") as fh:
        if job["kind"] == "streams":
            for sc in job["scenarios"]:
                fh.write(json.dumps(collect_streams(sc), separators=(",", ":")) + "\n")
        elif job["kind"] == "replay":
            for sc in job["scenarios"]:
                for k, order in enumerate(sc["orders"]):
                    r = replay_one(sc, sc["streams"], order)
                    r.update({"id": sc["id"], "order_no": k})
                    fh.write(json.dumps(r, separators=(",", ":")) + "\n")
        elif job["kind"] == "real":
            for sc in job["scenarios"]:
                r = real_run(sc)
                r["id"] = sc["id"]
                fh.write(json.dumps(r, separators=(",", ":")) + "\n")
        elif job["kind"] == "fault":
            for f in job["faults"]:
                r = real_run(f["sc"], victim=f["victim"], kill_before=f["kill_before"], deadline=f.get("deadline", 20.0),
                             prior=f.get("prior", 0), how=f.get("how", "exit3"))
                r.update({"id": f["id"], "victim": f["victim"], "kill_before": f["kill_before"]})
                fh.write(json.dumps(r, separators=(",", ":")) + "\n")
        fh.flush()
    os._exit(0)   # a hung parent thread must not keep the interpreter alive


if __name__ == "__main__":
    main()
