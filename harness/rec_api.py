"""Worker for the API-equivalence stage (C01 / C02 at the user's level).  argv: job.json out.ndjson
job = {"items": [{"rid", "P", "cfg", "mp": k}]}: every public way of enumerating - the iterator, the iterator's arrays
kept by reference, find_all(), solve_all(callback), the multiprocessing solver's find_all() - on the same problem."""
import json
import sys

import problems
from nucs.solvers.backtrack_solver import BacktrackSolver
from nucs.solvers.multiprocessing_solver import MultiprocessingSolver


def solver(P, cfg):
    return BacktrackSolver(problems.to_nucs(P), consistency_alg_idx=cfg.get("ca", 0), var_heuristic_idx=cfg.get("vh", 0),
                           dom_heuristic_idx=cfg.get("dh", 0), log_level="ERROR")


def conv(arrays):
    return [[int(v) for v in a] for a in arrays]


def run(it):
    P, cfg = it["P"], it["cfg"]
    out = {"rid": it["rid"], "iter": [], "kept": [], "found": [], "called": [], "mp": [], "hasmp": False, "raised": ""}
    try:
        kept = []
        for x in solver(P, cfg).solve():
            out["iter"].append([int(v) for v in x])
            kept.append(x)
        out["kept"] = conv(kept)
        out["found"] = conv(solver(P, cfg).find_all())
        got = []
        solver(P, cfg).solve_all(lambda s: got.append(s))
        out["called"] = conv(got)
        if it.get("mp"):
            parts = problems.to_nucs(P).split(it["mp"], it["mpvar"])
            kw = dict(consistency_alg_idx=cfg.get("ca", 0), var_heuristic_idx=cfg.get("vh", 0), dom_heuristic_idx=cfg.get("dh", 0),
                      log_level="ERROR")
            m = MultiprocessingSolver([BacktrackSolver(p, **kw) for p in parts], log_level="ERROR")
            out["mp"] = conv(m.find_all())
            out["hasmp"] = True
    except Exception as e:  # noqa
        out["raised"] = type(e).__name__
    return out


def main():
    job = json.load(open(sys.argv[1]))
    with open(sys.argv[2], "w") as fh:
        for it in job["items"]:
            fh.write(json.dumps(run(it), separators=(",", ":")) + "\n")


if __name__ == "__main__":
    main()
