"""Worker: call the real Problem.split and solve every part with the real solver.  argv: job.json out.ndjson"""
import copy
import json
import signal
import sys

import problems
from nucs.solvers.backtrack_solver import BacktrackSolver


class _TO(Exception):
    pass


def _alarm(*a):
    raise _TO()


def desc(prob):
    return {"doms": [[int(a), int(b)] for a, b in prob.shr_domains_lst], "vidx": [int(x) for x in prob.dom_indices_lst],
            "voff": [int(x) for x in prob.dom_offsets_lst],
            "props": [{"vars": [int(v) for v in pr[0]], "alg": NAMES[pr[1]], "params": [int(x) for x in pr[2]]}
                      for pr in prob.propagators]}


NAMES = problems.alg_names()


def solve_all(prob, cap=4000):
    s = BacktrackSolver(prob, log_level="ERROR")
    out = []
    signal.setitimer(signal.ITIMER_REAL, 20.0)
    try:
        for x in s.solve():
            out.append([int(v) for v in x])
            if len(out) > cap:
                return out, "too-many"
        return out, "ok"
    except _TO:
        return out, "timeout"
    except Exception as e:  # noqa
        return out, "raised:" + type(e).__name__
    finally:
        signal.setitimer(signal.ITIMER_REAL, 0)


def main():
    job = json.load(open(sys.argv[1]))
    signal.signal(signal.SIGALRM, _alarm)
    with open(sys.argv[2], "w") as fh:
        for it in job["items"]:
            prob = problems.to_nucs(it["P"])
            # history: the problem object was initialised / given to a solver / partly solved BEFORE it is split
            used = it.get("used", 0)
            try:
                if used == 1:
                    prob.init()
                elif used == 2:
                    solve_all(prob)
                elif used == 3:
                    next(BacktrackSolver(prob, log_level="ERROR").solve(), None)
            except Exception:  # noqa
                pass
            before = desc(prob)
            rec = {"rid": it["rid"], "P": before, "k": it["k"], "v": it["v"], "used": it.get("used", 0), "raised": "", "parts": [], "sols": [],
                   "status": [], "whole": []}
            try:
                parts = prob.split(it["k"], it["v"])
            except Exception as e:  # noqa
                rec["raised"] = type(e).__name__ + ":" + str(e)[:80]
                parts = []
            rec["after"] = desc(prob)
            rec["parts"] = [desc(p) for p in parts]
            for p in parts:
                sols, st = solve_all(p)
                rec["sols"].append(sols)
                rec["status"].append(st)
            # independence: refining one part (as a caller distributing extra constraints would) must not leak into
            # its siblings or into the original
            rec["independent"] = True
            if len(parts) >= 1:
                snap = [desc(prob)] + [desc(p) for p in parts[1:]]
                try:
                    import nucs.propagators.propagators as pp
                    parts[0].add_propagator(([0], pp.ALG_DUMMY, []))
                    parts[0].shr_domains_lst[0][0] = parts[0].shr_domains_lst[0][0]
                    extra = parts[0].add_variable((0, 1))
                    now = [desc(prob)] + [desc(p) for p in parts[1:]]
                    rec["independent"] = now == snap
                except Exception as e:  # noqa
                    rec["independent"] = True
            whole, st = solve_all(copy.deepcopy(problems.to_nucs(it["P"])))
            rec["whole"] = whole
            if st != "ok":
                rec["raised"] = "whole:" + st
            fh.write(json.dumps(rec, separators=(",", ":")) + "\n")


if __name__ == "__main__":
    main()
