"""C15: results are reproducible, mode-independent and independent of earlier solver use."""
import json
import random

import problems
from common import (NCPU, Machinery, Report, Scratch, nucs_env, read_ndjson, run_tlc, run_workers, run_workers_resilient,
                    validate_shards, warm_jit)

NT, NC = 4, 4


def _exec(histories, env, tmp, tag, batch=40):
    jobs = [{"histories": histories[k:k + batch]} for k in range(0, len(histories), batch)]
    outs = run_workers("rec_history.py", jobs, env, tmp, timeout=1200)
    res = list(read_ndjson(outs))
    for f in outs:
        f.rename(f.with_suffix(f".{tag}.done"))
    return res


def c15(tier, seed, replay):
    rep = Report("C15", tier, "model_checking")
    cold = warm_jit()
    envI, envJ = nucs_env(jit=False), nucs_env(jit=True)
    r = random.Random(seed * 613 + 1)
    with Scratch("hist") as tmp:
        # ---- reference runs: one fresh interpreter per (template, configuration)
        fresh = [{"rid": 1000 * t + c, "ops": [["newproblem", t, 0], ["newsolver", 1, c], ["drain", 1, 0]]}
                 for t in range(1, NT + 1) for c in range(1, NC + 1)]
        # derived templates: part b of Problem.split(2, 0) of a FRESH base problem (nothing built on it before)
        NTA = NT + 2 * NT
        fresh += [{"rid": 1000 * (NT + 2 * (t - 1) + b) + c, "ops": [["newproblem", t, 0], ["split", 1, b], ["newsolver", 2, c], ["drain", 1, 0]]}
                  for t in range(1, NT + 1) for b in (1, 2) for c in range(1, NC + 1)]
        ref_runs = _exec([f for f in fresh if f["rid"] % 1000 != 4], envI, tmp, "ref", batch=1)
        refsols = [[None] * NC for _ in range(NTA)]
        for x in ref_runs:
            t, c = divmod(x["rid"], 1000)
            if any(o["raised"] for o in x["obs"]):
                raise Machinery(f"reference run failed: {x}")
            refsols[t - 1][c - 1] = {"sols": x["obs"][-1]["sols"], "stats": x["obs"][-1]["stats"]}
        for t in range(NTA):
            # configuration 4 = a custom-registered clone of the default variable heuristic (registered after another
            # heuristic made by the same factory): its reference IS the run of configuration 1
            refsols[t][3] = refsols[t][0]
        nsols = [[len(refsols[t][c]["sols"]) for c in range(NC)] for t in range(NTA)]
        maxops = 5 if tier == "quick" else 6
        (tmp / "ref.json").write_text(json.dumps({"nt": NT, "nc": NC, "maxops": maxops, "nsols": nsols}))
        (tmp / "refsols.json").write_text(json.dumps(refsols))
        (tmp / "empty.ndjson").write_text("{}\n")
        env0 = {"HISTORY_REF": str(tmp / "ref.json"), "HISTORY_REFSOLS": str(tmp / "refsols.json"),
                "HISTORY_RUNS": str(tmp / "empty.ndjson")}
        # ---- S->C: TLC enumerates the histories
        g = run_tlc("ProcessHistory", "ProcessHistory.cfg", env=dict(env0, HISTORY_STAGE="generate"), workers=1,
                    timeout=2400, scratch=tmp)
        if g.error:
            raise Machinery("TLC failed generating histories: " + g.error)
        hs = [t[0] for t in g.tagged("ORDER")]
        uniq = {json.dumps(h): h for h in hs}
        hs = list(uniq.values())
        if not hs:
            raise Machinery("no history generated")
        cap = 1500 if tier == "quick" else 40000
        if len(hs) > cap:
            r.shuffle(hs)
            # stratified: a third of the budget for histories in which a problem is split AFTER a solver was built on it
            # and the part is then solved (the split of a used problem object), the rest uniformly
            def used_then_split(h):
                built = set()
                for k, (op, a, b) in enumerate(h):
                    if op == "newsolver":
                        built.add(a)
                    if op == "split" and a in built:
                        part = 1 + sum(1 for o in h[:k + 1] if o[0] in ("newproblem", "split"))
                        return any(o[0] == "newsolver" and o[1] == part for o in h[k + 1:])
                return False
            special = [h for h in hs if used_then_split(h)][:cap // 3]
            keys = {json.dumps(h) for h in special}
            hs = special + [h for h in hs if json.dumps(h) not in keys][:cap - len(special)]
        histories = [{"rid": k, "ops": h} for k, h in enumerate(hs)]
        runs = []
        for tag, env in (("interpreted", envI), ("compiled", envJ)):
            for x in _exec(histories, env, tmp, tag):
                x["mode"] = tag
                x["rid"] = len(runs)
                runs.append(x)
        # fresh-interpreter runs of the reference histories in both modes, twice (reproducibility, mode independence)
        for tag, env in (("interpreted", envI), ("compiled", envJ), ("compiled-again", envJ), ("interpreted-again", envI)):
            for x in _exec(fresh, env, tmp, "fresh-" + tag, batch=1):
                x["mode"] = "fresh-" + tag
                x["rid"] = len(runs)
                runs.append(x)
        verdicts, judged, st, tr = validate_shards("ProcessHistory", "ProcessHistory.cfg", "HISTORY_RUNS", runs, tmp,
                                                   extra_env={"HISTORY_REF": env0["HISTORY_REF"], "HISTORY_REFSOLS": env0["HISTORY_REFSOLS"],
                                                              "HISTORY_STAGE": "judge"})
        seen = set()
        for rid, clause in verdicts:
            if (rid, clause) in seen:
                continue
            seen.add((rid, clause))
            x = runs[rid]
            if clause.startswith("XX:"):
                raise Machinery(f"history {x['ops']} is not a behaviour of ProcessHistory: {clause}")
            rep.fail({"ops": x["ops"], "mode": x["mode"], "clause": clause},
                     f"{clause} in {x['mode']} mode, history {[(o['op'], o['a'], o['b']) for o in x['ops']]}")
        rep.add(states=g.distinct + st, transitions=g.generated + tr, traces_validated_against_impl=judged)
        rep.cov["histories"] = {"generated_by_TLC": len(uniq), "executed_per_mode": len(histories), "max_ops": maxops,
                                "templates": "queens(5) with shared domains, magic_sequence(4) with repeated variables, "
                                             "a 4-variable model with an aliased variable, the same model with other parameters "
                                             "(a sibling: same algorithms, arities and domains)", "configurations": NC,
                                "configuration_4": "custom-registered clone of the default variable heuristic, judged against configuration 1",
                                "fresh_interpreter_runs": 4 * len(fresh)}
        # ---- input quantifier: random problems, 2 interpreted + 2 compiled runs each
        n = 240 if tier == "quick" else 5000
        items = []
        for k in range(n):
            P = problems.random_problem(r, cap=400)
            cfg = problems.random_config(r, P)
            mode = r.choice(["solve", "solve", "min", "max"])
            run = {"P": P, "cfg": cfg, "mode": mode, "var": r.randrange(len(P["vidx"]))}
            items.append({"rid": k, "runs": [run]})
        res = {}
        # the two runs of a mode start from differently poisoned allocator caches (0x00 / 0xFF): a result that depends on
        # uninitialised memory differs between them deterministically
        for tag, env, poison in (("i1", envI, 0), ("i2", envI, 255), ("c1", envJ, 255), ("c2", envJ, 0)):
            outs, killed = run_workers_resilient("rec_rewrites.py", [{"items": items[k::NCPU], "timeout": 60.0, "poison": poison} for k in range(NCPU)
                                                                     if items[k::NCPU]], env, tmp, item_timeout=90.0)
            for o in read_ndjson(outs):
                res.setdefault(o["rid"], {})[tag] = o["res"][0]
            for f in outs:
                f.unlink()
        recs = []
        for k in range(n):
            if len(res.get(k, {})) == 4:
                recs.append({"rid": k, "runs": [res[k][t] for t in ("i1", "i2", "c1", "c2")]})
        verdicts, judged2, st2, tr2 = validate_shards("ModeTrace", "ModeTrace.cfg", "MODE_RUNS", recs, tmp)
        seen = set()
        for rid, clause in verdicts:
            if (rid, clause) in seen:
                continue
            seen.add((rid, clause))
            it = items[rid]["runs"][0]
            rep.fail({"P": it["P"], "cfg": it["cfg"], "mode": it["mode"], "var": it["var"], "clause": clause},
                     f"{clause} on {json.dumps(it)[:400]}")
        rep.add(states=st2, transitions=tr2, traces_validated_against_impl=judged2, evaluations=len(runs) + 4 * len(recs),
                distinct_nontrivial=len(histories) + sum(1 for x in recs if x["runs"][0]["sols"]),
                samples=[{"history": [(o["op"], o["a"], o["b"]) for o in runs[k]["ops"]], "mode": runs[k]["mode"]}
                         for k in (0, len(runs) // 3, len(runs) // 2)])
        rep.cov["random_instances_run_2x_interpreted_2x_compiled"] = len(recs)
        # ---- the edges of the configuration space: the same capacity scenarios in both modes must end the same way
        import subprocess
        from concurrent.futures import ThreadPoolExecutor
        from common import HARNESS, PY
        edge = [(n, hgt, dh) for hgt in (2, 3, 5, 127, 253, 254) for n in (hgt - 1, hgt, hgt + 1) for dh in (0, 3)
                if 1 <= n <= 300]
        if tier == "quick":
            edge = edge[::2] + [(254, 254, 0), (300, 254, 0), (130, 253, 3)]

        def cap(args):
            n, hgt, dh, jit = args
            out = tmp / f"edge-{n}-{hgt}-{dh}-{int(jit)}.json"
            try:
                p = subprocess.run([PY, str(HARNESS / "cap_worker.py"), str(n), str(hgt), str(dh), str(out)],
                                   env=envJ if jit else envI, capture_output=True, text=True, timeout=300)
                rc = p.returncode
            except subprocess.TimeoutExpired:
                rc = -1
            o = json.load(open(out)) if out.exists() else {"outcome": "deadline"}
            return (n, hgt, dh, jit), {"outcome": o.get("outcome"), "count": o.get("count", 0), "depth": o.get("depth", -1),
                                       "first_ok": o.get("first_ok", True), "exit": rc}

        with ThreadPoolExecutor(max_workers=NCPU) as ex:
            got = dict(ex.map(cap, [(n, hgt, dh, jit) for (n, hgt, dh) in edge for jit in (False, True)]))
        nedge = 0
        for (n, hgt, dh) in edge:
            a, b = got[(n, hgt, dh, False)], got[(n, hgt, dh, True)]
            nedge += 1
            same = (a["outcome"] in ("raised", "refused")) == (b["outcome"] in ("raised", "refused")) and \
                   (a["outcome"] in ("raised", "refused") or (a["count"], a["depth"], a["first_ok"]) == (b["count"], b["depth"], b["first_ok"])) \
                   and a["exit"] == b["exit"] == 0
            if not same:
                rep.fail({"n": n, "height": hgt, "dh": dh, "clause": "C15:capacity-edge-differs-between-modes",
                          "interpreted": a, "compiled": b},
                         f"C15:capacity-edge-differs-between-modes: {n} free variables, stack_max_height={hgt}, value "
                         f"heuristic {dh}: interpreted {a} vs compiled {b}")
        rep.cov["capacity_edge_scenarios_compared_across_modes"] = nedge
        rep.cov["compile_seconds"] = round(cold, 1)
    rep.add(rule="(1) Histories: every behaviour of spec/ProcessHistory.tla up to max_ops operations (new problem object, "
                 "new solver on a possibly re-used problem, Problem.split of a possibly used problem (the part becomes a problem object of its own), one step, drain, abandon half-way, registration of a custom "
                 "propagator / variable heuristic / value heuristic / consistency algorithm) that contains at least one "
                 "step; each is executed inside one interpreter, in interpreted and in compiled mode, 40 histories "
                 "per process one after the other; TLC folds the history through the specification and compares every "
                 "step with the reference run made in a fresh interpreter, the statistics of every completed "
                 "enumeration, and the meaning of the problem object around each solver construction. (2) The "
                 "reference histories again in fresh interpreters, twice per mode. (3) Seeded random problems x "
                 "configurations x modes run twice interpreted and twice compiled, compared by spec/ModeTrace.tla.")
    rep.assumptions += ["the reference run of each (template, configuration) is made by the interpreted engine in a fresh "
                        "interpreter; 'earlier use' inside a process is bounded by the history length and batch size"]
    return rep.finish()
