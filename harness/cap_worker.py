"""One capacity scenario per process (C19): argv = n h dh out.json.  Exit status is part of the observation."""
import json
import sys

n, h, dh, out = int(sys.argv[1]), int(sys.argv[2]), int(sys.argv[3]), sys.argv[4]
rec = {"n": n, "h": h, "dh": dh, "outcome": "deadline", "count": 0, "distinct": True, "indomain": True, "depth": -1,
       "full": False, "first": [], "first_ok": True, "raised": ""}


def dump():
    with open(out, "w") as fh:
        json.dump(rec, fh)


dump()
from nucs.problems.problem import Problem
from nucs.solvers.backtrack_solver import BacktrackSolver

hi = 2 if dh == 3 else 1
try:
    s = BacktrackSolver(Problem([(0, hi)] * n), stack_max_height=h, dom_heuristic_idx=dh, log_level="ERROR")
except Exception as e:  # noqa
    rec["outcome"] = "refused"
    rec["raised"] = type(e).__name__
    dump()
    sys.exit(0)
full = (hi + 1) ** n <= 1100
rec["full"] = full
seen = set()
try:
    for x in s.solve():
        t = tuple(int(v) for v in x)
        if not rec["first"]:
            rec["first"] = list(t)
            want = {0: 0, 1: 1, 2: 0, 3: 1}[dh]
            rec["first_ok"] = all(v == want for v in t)
        rec["count"] += 1
        if t in seen:
            rec["distinct"] = False
        seen.add(t)
        if any(v < 0 or v > hi for v in t) or len(t) != n:
            rec["indomain"] = False
        if not full:
            break
    rec["depth"] = int(s.get_statistics()["SOLVER_CHOICE_DEPTH"])
    rec["outcome"] = "ok"
except Exception as e:  # noqa
    rec["outcome"] = "raised"
    rec["raised"] = type(e).__name__
dump()
