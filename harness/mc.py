"""Model-checking stage: TLC explores spec/NucsMech.tla exhaustively on problem families exported from the
real Problem.init() (sorted constraint order, trigger matrix), checking the invariants of one property.

A counterexample found IN THE MODEL is not a verdict on the code: its initial state is a problem +
configuration, which is run on the real engine through Layer A; only a confirmed failure becomes a violation.
"""
from __future__ import annotations

import json
import re
import subprocess

from common import HARNESS, NCPU, PY, Machinery, Scratch, nucs_env, run_tlc

INVARIANTS = {
    "C01": ["C01_ReportedSat"],
    "C02": ["C02_NoDuplicate", "C02_Complete", "C02_Accounted", "C09_FramesDisjoint"],
    "C03": ["C03_Optimal", "C03_NeverSearchesEmpty"],
    "C04": ["C04_PassBounded", "C04_NoBranchOnNothing"],
    "C07": ["C07_EnabledSound"],
    "C08": ["C08_Shrinks", "C08_Fixpoint", "C08_Greatest", "C08_KeepsSolutions", "C08_FailsOnlyWithoutSolution"],
    "C09": ["C09_FramesDisjoint", "C02_Accounted"],
    "C10": ["C10_Sound", "C10_InsideBC"],
    "C17": ["C17_Exact", "C17_Conservation", "C17_Solutions"],
    "C19": ["C19_Fits", "C19_ErrorOnlyWhenFull", "C02_Complete", "C02_NoDuplicate"],
}
# (family, n quick, n thorough)
FAMILIES = {
    "C01": [("core", 0, 0), ("mixed", 1500, 30000), ("circuit", 500, 8000)],
    "C02": [("core", 0, 0), ("configs", 2000, 40000), ("circuit", 500, 8000)],
    "C03": [("opt", 2000, 40000)],
    "C04": [("pairs", 1500, 30000), ("mixed", 1000, 20000), ("circuit", 500, 8000)],
    "C07": [("core", 0, 0), ("pairs", 1500, 30000)],
    "C08": [("core", 0, 0), ("pairs", 1500, 30000), ("circuit", 400, 8000), ("sched", 900, 12000)],
    "C09": [("configs", 2000, 40000)],
    "C10": [("shaving", 1500, 30000)],
    "C17": [("mixed", 1500, 30000), ("configs", 800, 16000)],
    "C19": [("cap", 1500, 30000)],
}
REFINEMENT = ["Refines", "FramesAgree", "CountsAgree"]
LIVENESS = {"C03": ("opt", 400, 4000), "C04": ("mixed", 400, 4000)}


def gen_family(tmp, fam, n, seed):
    out = tmp / f"fam-{fam}.ndjson"
    p = subprocess.run([PY, str(HARNESS / "gen_family.py"), str(out), fam, str(n), str(seed)],
                       env=nucs_env(jit=False), capture_output=True, text=True, timeout=1200)
    if p.returncode != 0:
        raise Machinery(f"gen_family {fam} failed: {p.stderr[-1500:]}")
    m = re.search(r"(\d+) problems", p.stdout)
    return out, int(m.group(1)) if m else 0


def _initial_problem(out: str, famfile):
    """The family record of the counterexample's problem (P is constant along a behaviour; it carries its id)."""
    m = re.search(r"State 1: <Init.*?\bid \|-> (\d+)", out, re.S)
    if not m:
        return None
    pid = int(m.group(1))
    with open(famfile) as fh:
        for line in fh:
            d = json.loads(line)
            if d["id"] == pid:
                return d
    return None


def _violated(out: str):
    return re.findall(r"Invariant (\S+) is violated", out) + (
        ["Terminates"] if re.search(r"Temporal propert(y|ies) .*violated", out) else [])


def run_mc(prop: str, tier: str, seed: int):
    """Returns dict(states, transitions, problems, violated=[(invariant, family, problem_text)], per_family)."""
    res = {"states": 0, "transitions": 0, "problems": 0, "violated": [], "per_family": {}}
    with Scratch("mc") as tmp:
        cfg = tmp / f"MC_{prop}.cfg"
        # spec/MechRefines.tla = NucsMech + the abstract state of NucsAbs stepped along: besides the invariants of the
        # property, EVERY clause of Layer A must hold on every step of the mechanism (refinement NucsMech => NucsAbs)
        cfg.write_text("SPECIFICATION RSpec\nCHECK_DEADLOCK FALSE\nINVARIANT TypeOK\n"
                       + "".join(f"INVARIANT {i}\n" for i in INVARIANTS[prop] + REFINEMENT))
        for fam, nq, nt in FAMILIES[prop]:
            f, n = gen_family(tmp, fam, nq if tier == "quick" else nt, seed)
            r = run_tlc("MechRefines", str(cfg), env={"FAMILY": str(f)}, workers=NCPU, timeout=3000, scratch=tmp)
            bad = _violated(r.out)
            if r.error and not bad:
                raise Machinery(f"TLC failed on MechRefines/{fam}: {r.error}")
            if "Refines" in bad:
                res["clauses"] = sorted(set(re.findall(r'"(C\d\d:[^"]+|XX:[^"]+)"', "".join(re.findall(r"^/\\ bad = (\{.*\})$", r.out, re.M)))))
            res["states"] += r.distinct
            res["transitions"] += r.generated
            res["problems"] += n
            res["per_family"][fam] = {"problems": n, "distinct_states": r.distinct, "states_generated": r.generated,
                                      "wall_s": round(r.wall, 1)}
            for inv in bad:
                res["violated"].append((inv, fam, _initial_problem(r.out, f)))
        if prop in LIVENESS:
            fam, nq, nt = LIVENESS[prop]
            f, n = gen_family(tmp, fam, nq if tier == "quick" else nt, seed + 17)
            lcfg = tmp / "MC_live.cfg"
            lcfg.write_text("SPECIFICATION FairSpec\nCHECK_DEADLOCK FALSE\nPROPERTY Terminates\n")
            r = run_tlc("NucsMech", str(lcfg), env={"FAMILY": str(f)}, workers=NCPU, timeout=3000, scratch=tmp)
            bad = _violated(r.out)
            if r.error and not bad:
                raise Machinery(f"TLC failed on NucsMech liveness/{fam}: {r.error}")
            res["states"] += r.distinct
            res["transitions"] += r.generated
            res["per_family"]["liveness:" + fam] = {"problems": n, "distinct_states": r.distinct, "wall_s": round(r.wall, 1)}
            for inv in bad:
                res["violated"].append((inv, fam, _initial_problem(r.out, f)))
    return res


def report_mc(rep, prop, tier, seed):
    r = run_mc(prop, tier, seed)
    rep.add(states=r["states"], transitions=r["transitions"])
    rep.cov["model_checking"] = {"spec": "spec/NucsMech.tla + spec/MechRefines.tla (refinement NucsMech => NucsAbs: every "
                                         "clause of Layer A holds on every step of the mechanism)",
                                 "invariants": INVARIANTS[prop] + REFINEMENT + (
        ["Terminates (WF_vars(Next))"] if prop in LIVENESS else []), "families": r["per_family"],
        "problems": r["problems"], "exhaustive_within_family": True}
    for inv, fam, D in r["violated"]:
        # a design-level counterexample is concretised: its problem + configuration is run on the real engine
        confirmed = False
        if D is not None:
            import engine
            cfg = D["cfg"]
            it = {"id": 0, "P": {k: D[k] for k in ("doms", "vidx", "voff", "props")},
                  "cfg": {"ca": cfg["ca"], "vh": cfg["vh"], "dh": cfg["dh"], "height": cfg["height"],
                          "vparams": cfg["vparams"] or None, "dparams": cfg["dparams"] or None},
                  "mode": cfg["mode"]}
            if cfg["mode"] != "solve":
                it["var"] = cfg["var"]
            er = engine.run_corpus(tier, seed, prop, items=[it])
            for item, l, clause in er["failures"]:
                if clause.startswith(prop + ":"):
                    confirmed = True
                    rep.fail({"P": item["P"], "cfg": item["cfg"], "mode": item["mode"], "var": item.get("var", -1),
                              "limit": -1, "clause": clause, "event": l, "model_invariant": inv,
                              "algs": sorted({c["alg"] for c in item["P"]["props"]})},
                             f"{clause} (model counterexample of {inv} confirmed on the real engine)")
        if not confirmed:
            if inv == "Refines":
                inv = "Refines " + ",".join(r.get("clauses", []))
            rep.notes.append(f"DRIFT: NucsMech violates {inv} on family {fam} but the real engine passes Layer A on "
                             f"that problem: {json.dumps(D)[:500]}")
            print(f"DRIFT layer=mech invariant={inv} family={fam}: the mechanism model admits a counterexample the "
                  f"real engine does not reproduce")
    return r
