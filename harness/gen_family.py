"""Export problem families for the model checker: static data comes from the REAL Problem.init()
(sorted constraint order, trigger matrix), so NucsMech runs on the very arrays the engine uses.

argv: out.ndjson family [n] [seed]
"""
import json
import random
import sys

import problems


def describe(P, cfg):
    prob = problems.to_nucs(P)
    prob.init()
    D = problems.from_nucs(prob)
    D["trig"] = prob.triggers.tolist()
    c = {"ca": cfg.get("ca", 0), "vh": cfg.get("vh", 0), "dh": cfg.get("dh", 0), "height": cfg.get("height", 64),
         "mode": cfg.get("mode", "solve"), "var": cfg.get("var", 0),
         "decision": cfg.get("decision", list(range(len(P["doms"])))),
         "vparams": cfg.get("vparams") or [], "dparams": cfg.get("dparams") or [], "ent": cfg.get("ent", 1),
         "sched": cfg.get("sched", 0), "calls": cfg.get("calls", 1)}
    D["cfg"] = c
    return D


MC_ALGS = problems.HULL_ALGS | {"affine_eq", "dummy"}


def fam_core(n, seed):
    """1-constraint exhaustive catalogue on 2 domains of 0..2, default configuration."""
    for P in problems.small_family():
        yield P, {"ent": 2}


def fam_pairs(n, seed):
    """2 constraints of the catalogue on 2-3 domains, sampled."""
    r = random.Random(seed)
    ivs = [(a, b) for a in range(0, 3) for b in range(a, 3)]
    cat = problems.CATALOG_2
    for _ in range(n):
        c1, c2 = r.choice(cat), r.choice(cat)
        doms = [list(r.choice(ivs)), list(r.choice(ivs))]
        vidx, voff = [0, 1], [0, 0]
        if r.random() < 0.35:
            vidx.append(r.randrange(2))
            voff.append(r.choice([-1, 0, 1]))
        nv = len(vidx)
        props = []
        for c in (c1, c2):
            vs = r.sample(range(nv), 2) if r.random() < 0.8 else [r.randrange(nv), r.randrange(nv)]
            props.append({"vars": vs, "alg": c[0], "params": list(c[1])})
        P = {"doms": doms, "vidx": vidx, "voff": voff, "props": props}
        if in_contract(P):
            yield P, {"ent": r.choice([0, 1, 2])}


def in_contract(P):
    for c in P["props"]:
        vw = problems.views(P, c["vars"])
        if c["alg"] == "gcc":
            v0 = c["params"][0]
            m = (len(c["params"]) - 1) // 2
            if any(lo < v0 or hi > v0 + m - 1 for lo, hi in vw):
                return False
        if c["alg"] in ("and", "exactly_true") and any(lo < 0 or hi > 1 for lo, hi in vw):
            return False
    return True


def fam_random(n, seed, modes=("solve",), allcfg=False, ca=None, heights=None):
    r = random.Random(seed)
    k = 0
    while k < n:
        P = problems.random_problem(r, cap=60, flavour=r.choice(["int", "int", "bool", "alias"]))
        if any(c["alg"] not in MC_ALGS for c in P["props"]):
            continue
        cfgs = list(problems.all_configs(P, r)) if allcfg else [problems.random_config(r, P, ca=ca)]
        for cfg in cfgs:
            cfg = dict(cfg)
            cfg["mode"] = r.choice(modes)
            cfg["var"] = r.randrange(len(P["vidx"]))
            cfg["height"] = 16 if not heights else r.choice(heights)
            cfg["ent"] = r.choice([0, 1, 1])
            cfg["calls"] = 2 if k % 3 == 0 else 1      # every third: a second call on the same solver object
            yield P, cfg
            k += 1


def fam_circuit(n, seed):
    r = random.Random(seed)
    k = 0
    while k < n:
        P = problems.random_problem(r, cap=130, flavour="circuit")
        for cfg in ([problems.random_config(r, P)] if k % 4 else list(problems.all_configs(P, r))[::5]):
            cfg = dict(cfg)
            cfg["mode"] = r.choice(["solve", "solve", "min"])
            cfg["var"] = r.randrange(len(P["vidx"]))
            cfg["height"] = 16
            cfg["ent"] = 1
            yield P, cfg
            k += 1


def fam_sched(n, seed):
    """every wake-up order: 2-3 constraints, plain bound consistency, default heuristics"""
    for P, cfg in fam_pairs(n, seed):
        yield P, {"sched": 1, "ent": 1}
    r = random.Random(seed + 1)
    k = 0
    while k < n // 3:
        P = problems.random_problem(r, cap=40, flavour=r.choice(["int", "bool", "alias"]))
        if any(c["alg"] not in MC_ALGS for c in P["props"]) or len(P["props"]) > 3:
            continue
        yield P, {"sched": 1, "ent": 1, "height": 16}
        k += 1


FAMS = {
    "sched": fam_sched,
    "circuit": fam_circuit,
    "core": fam_core,
    "pairs": fam_pairs,
    "random": lambda n, s: fam_random(n, s),
    "configs": lambda n, s: fam_random(n, s, allcfg=True),
    "opt": lambda n, s: fam_random(n, s, modes=("min", "max")),
    "shaving": lambda n, s: fam_random(n, s, modes=("solve", "solve", "min", "max"), ca=1),
    "cap": lambda n, s: fam_random(n, s, modes=("solve", "solve", "min"), heights=[1, 2, 3, 4]),
    "mixed": lambda n, s: fam_random(n, s, modes=("solve", "solve", "min", "max")),
}


def main():
    out, fam = sys.argv[1], sys.argv[2]
    n = int(sys.argv[3]) if len(sys.argv) > 3 else 1000
    seed = int(sys.argv[4]) if len(sys.argv) > 4 else 1
    k = 0
    with open(out, "w") as fh:
        for P, cfg in FAMS[fam](n, seed):
            D = describe(P, cfg)
            D["id"] = k
            fh.write(json.dumps(D, separators=(",", ":")) + "\n")
            k += 1
    print(f"family {fam}: {k} problems")


if __name__ == "__main__":
    main()
