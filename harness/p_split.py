"""C12: Problem.split partitions the search space (lemma on the spec + every recorded call judged by TLC)."""
import random

import problems
from common import NCPU, Machinery, Report, Scratch, nucs_env, read_ndjson, run_tlc, run_workers, validate_shards


def items(tier, seed):
    r = random.Random(seed * 9176 + 3)
    out = []
    # exhaustive: every [a,b] in -3..4, every k from 1 to size+3, variable with its own domain / aliased variable
    for a in range(-3, 5):
        for b in range(a, 5):
            for k in range(1, (b - a + 1) + 4):
                for variant in (0, 1, 2):
                    doms = [[a, b], [0, 2]]
                    if variant == 0:
                        P = {"doms": doms, "vidx": [0, 1], "voff": [0, 0], "v": 0,
                             "props": [{"vars": [0, 1], "alg": "affine_leq", "params": [1, 1, 3]}]}
                    elif variant == 1:   # split on the second domain through an aliased variable (index 2 -> domain 0)
                        P = {"doms": [[0, 2], [a, b]], "vidx": [0, 1, 1], "voff": [0, 0, 1], "v": 2,
                             "props": [{"vars": [0, 2], "alg": "affine_geq", "params": [1, 1, 2]},
                                       {"vars": [0, 1], "alg": "alldifferent", "params": []}]}
                    else:                # variable 1 lives on domain 0 (index differs from the domain index)
                        P = {"doms": [[a, b], [0, 1]], "vidx": [1, 0, 0], "voff": [0, 0, -1], "v": 1,
                             "props": [{"vars": [0, 1, 2], "alg": "alldifferent", "params": []}]}
                    v = P.pop("v")
                    if tier == "quick" and r.random() > 0.55:
                        continue
                    out.append({"P": P, "k": k, "v": v})
    n = 250 if tier == "quick" else 6000
    for _ in range(n):
        P = problems.random_problem(r, cap=400)
        v = r.randrange(len(P["vidx"]))
        d = P["vidx"][v]
        size = P["doms"][d][1] - P["doms"][d][0] + 1
        out.append({"P": P, "k": r.randint(1, size + 3), "v": v})
    for i, it in enumerate(out):
        it["rid"] = i
        it["used"] = i % 4      # 0 fresh object, 1 init() called, 2 solved by a solver before, 3 a solver abandoned after one step
    return out


def c12(tier, seed, replay):
    rep = Report("C12", tier, "model_checking")
    its = items(tier, seed)
    with Scratch("split") as tmp:
        (tmp / "empty.ndjson").write_text("{}\n")
        lem = run_tlc("SplitLemma", "SplitLemma.cfg", env={"SPLITS": str(tmp / "empty.ndjson")}, workers=4, scratch=tmp)
        if lem.error:
            raise Machinery("Split.tla lemma failed: " + lem.error)
        outs = run_workers("rec_split.py", [{"items": its[k::NCPU]} for k in range(NCPU) if its[k::NCPU]],
                           nucs_env(jit=False), tmp, timeout=2400)
        recs = list(read_ndjson(outs))
        verdicts, judged, st, tr = validate_shards("SplitTrace", "SplitTrace.cfg", "SPLITS", recs, tmp)
    byid = {x["rid"]: x for x in its}
    seen = set()
    for rid, clause in verdicts:
        if (rid, clause) in seen:
            continue
        seen.add((rid, clause))
        it = byid[rid]
        if clause.startswith("DRIFT:"):
            print(f"DRIFT layer=split clause={clause[6:]} (mirror of the current arithmetic; no property is decided by it)")
        if clause.startswith("C12:"):
            rep.fail({"P": it["P"], "k": it["k"], "v": it["v"], "clause": clause},
                     f"{clause} split(k={it['k']}, var={it['v']}) of {it['P']}")
    rep.add(evaluations=len(recs), traces_validated_against_impl=judged, states=st + lem.distinct,
            transitions=tr + lem.generated,
            distinct_nontrivial=sum(1 for x in recs if len(x["parts"]) > 1 and sum(len(s) for s in x["sols"]) > 0),
            samples=[{"k": x["k"], "var": x["v"], "problem": x["P"], "part_ranges": [p["doms"] for p in x["parts"]],
                      "solutions_per_part": [len(s) for s in x["sols"]]} for x in recs[:: max(1, len(recs) // 3)][:3]])
    rep.cov["lemma"] = {"spec": "spec/Split.tla + SplitLemma.tla", "config": "SplitLemma.cfg: PartitionLemma, BalancedLemma for all "
                        "[a,b] in -3..4 and k in 1..11", "states": lem.distinct}
    rep.cov["k_beyond_domain_size"] = sum(1 for x in its if x["k"] > (x["P"]["doms"][x["P"]["vidx"][x["v"]]][1] - x["P"]["doms"][x["P"]["vidx"][x["v"]]][0] + 1))
    rep.add(rule="Exhaustive: every domain [a,b] in -3..4 x every k in 1..size+3 x three variable layouts (own domain, "
                 "aliased variable with an offset, variable index different from its domain index) - sampled at 55% in "
                 "the quick tier - plus seeded random problems with a random variable and k. The real split is called, "
                 "every part and the whole problem are enumerated by the real solver; TLC judges each record "
                 "(original unchanged, parts identical elsewhere, ranges a partition equal to the spec's Ranges, parts "
                 "pairwise disjoint, union = brute-force solutions). Non-trivial = more than one part and at least "
                 "one solution.", exhaustive=(tier == "thorough"))
    rep.assumptions += ["solutions of the parts are enumerated by the real BacktrackSolver (default configuration) "
                        "under a 20 s watchdog; the brute-force oracle is Solutions(P) of spec/NucsAbs.tla"]
    return rep.finish()
