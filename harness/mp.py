"""C11 / C18: the multiprocessing solver.

  MC    : spec/MPSolver.tla - all interleavings of the workers' puts and the parent's gets on scenarios whose
          streams come from REAL worker runs; safety + termination; with crashes for C18.
  S->C  : every arrival order TLC enumerates (MP_orders.cfg) is replayed through the REAL parent loop
          (fake Queue/Process), and each replay is judged by TLC again (spec/MPTrace.tla).
  C->S  : real processes with the arrival order recorded, judged by MPTrace; fault injection for C18.
"""
from __future__ import annotations

import json
import random

import problems
from common import NCPU, Machinery, Scratch, nucs_env, read_ndjson, run_tlc, run_workers, validate_shards


def gen_scenarios(seed: int, n: int, max_msgs: int | None, kmax: int = 3):
    r = random.Random(seed * 7907 + 11)
    out = []
    guard = 0
    while len(out) < n and guard < 200 * n:
        guard += 1
        P = problems.random_problem(r, cap=250, flavour=r.choice(["int", "int", "alias", "bool"]))
        nd = len(P["doms"])
        d = r.randrange(nd)
        size = P["doms"][d][1] - P["doms"][d][0] + 1
        k = r.randint(1, min(kmax, size))
        mode = r.choice(["solve", "solve", "min", "max"])
        cfg = problems.random_config(r, P, allow_cost=False)
        sc = {"id": len(out), "P": P, "k": k, "split_var": d, "cfg": cfg, "mode": mode,
              "var": r.randrange(len(P["vidx"])),
              # history: the sub-solvers were used sequentially (drained / one step / optimised) BEFORE they are
              # handed to the multiprocessing solver - a solver object can be reused, whoever calls it next
              "used": len(out) % 3 == 1}
        out.append(sc)
    return out


def synthetic_scenarios(tier: str, base_id: int):
    """Reducer scenarios with hand-made streams: every pair (triple) of per-worker incumbent sequences over a
    small value set with negative values and ties; enumeration streams with 0..2 solutions per worker."""
    import itertools
    vals = [-2, -1, 0, 1]
    out = []

    def seqs(mode):
        ss = [[]] + [[v] for v in vals]
        for a, b in itertools.permutations(vals, 2):
            if (mode == "min" and a > b) or (mode == "max" and a < b):
                ss.append([a, b])
        return ss

    for mode in ("min", "max"):
        S = seqs(mode)
        for a, b in itertools.product(S, S):
            out.append((mode, [a, b]))
        S1 = [s for s in S if len(s) <= 1]
        for a, b, c in itertools.product(S1, S1, S1):
            out.append((mode, [a, b, c]))
    for lens in itertools.product((0, 1, 2), repeat=2):
        out.append(("solve", [[10 * w + i for i in range(n)] for w, n in enumerate(lens)]))
    for lens in itertools.product((0, 1, 2), repeat=3):
        out.append(("solve", [[10 * w + i for i in range(n)] for w, n in enumerate(lens)]))
    if tier == "quick":
        out = out[::2] + [("min", [[-1], [-2]]), ("min", [[-2], [-1]]), ("max", [[-2], [-1]]), ("max", [[-1, 0], [-2, 1]])]
    scs, streams = [], {}
    for k, (mode, st) in enumerate(out):
        sid = base_id + k
        scs.append({"id": sid, "synthetic": True, "mode": mode, "var": 0, "k": len(st)})
        msgs = []
        for w, vs in enumerate(st):
            ms = [[w, [v], [100 * (w + 1) + i + 1] * 13] for i, v in enumerate(vs)]
            ms.append([w, None, [100 * (w + 1) + len(vs) + 1] * 13])
            msgs.append(ms)
        streams[sid] = {"id": sid, "streams": msgs, "seq": [], "seqopt_none": True, "seqopt": 0}
    return scs, streams


def orders_count(lens):
    from math import factorial
    tot = factorial(sum(lens))
    for x in lens:
        tot //= factorial(x)
    return tot


def to_model_scenario(sc, st):
    streams = []
    for ws in st["streams"]:
        vals = []
        for (w, sol, stats) in ws:
            if sol is not None:
                vals.append(sol[sc["var"]] if sc["mode"] != "solve" else 0)
        streams.append(vals)
    return {"id": sc["id"], "mode": sc["mode"], "streams": streams}


def run_record(sc, st, run, rid, kind):
    """MPTrace record of one run of the real parent."""
    streams_vals = to_model_scenario(sc, st)["streams"]
    sols = [[m[1] for m in ws if m[1] is not None] for ws in st["streams"]]
    finals = [ws[-1][2] for ws in st["streams"]]
    return {"rid": rid, "kind": kind, "hasseq": not sc.get("synthetic", False), "mode": sc["mode"], "var": sc["var"],
            "streams": streams_vals, "sols": sols,
            "finals": finals, "seq": st["seq"], "seqnone": st["seqopt_none"], "seqopt": st["seqopt"],
            "gets": run["gets"], "yields": run["yields"], "none": run["none"], "ret": run["ret"],
            "agg": run["agg"], "raised": run["raised"]}


def arrivals_to_gets(arrivals):
    cnt = {}
    gets = []
    for w, _ in arrivals:
        cnt[w] = cnt.get(w, 0) + 1
        gets.append([w, cnt[w]])
    return gets


def parse_orders(tuples):
    """<<"ORDER", id, hist, yielded, best>> -> {id: [order, ...]}"""
    out = {}
    for t in tuples:
        sid, hist = t[0], t[1]
        key = json.dumps(hist)
        out.setdefault(sid, {})[key] = hist
    return {k: list(v.values()) for k, v in out.items()}


def c11_pipeline(rep, tier, seed, jit=False, scale=1.0, synthetic=True):
    env = nucs_env(jit=jit)
    nsc = int((150 if tier == "quick" else 1200) * scale)
    max_orders = int((8000 if tier == "quick" else 120000) * scale)
    pre_failures = []
    with Scratch("mp") as tmp:
        scs = gen_scenarios(seed, nsc, None)
        outs = run_workers("mp_worker.py", [{"kind": "streams", "scenarios": scs[k::NCPU]} for k in range(NCPU) if scs[k::NCPU]],
                           env, tmp, timeout=1500)
        streams = {s["id"]: s for s in read_ndjson(outs)}
        # the worker protocol the parent relies on: every worker's stream is its solutions followed by exactly one
        # completion marker.  A real worker that ends without the marker leaves the parent waiting forever (the call
        # never returns): that is a violation of C11, not a harness problem.
        malformed = []
        for sc in list(scs):
            for w, ws in enumerate(streams[sc["id"]]["streams"]):
                marks = [i for i, m in enumerate(ws) if m[1] is None]
                if marks != [len(ws) - 1]:
                    malformed.append((sc, w, len(ws), marks))
                    break
        # "the workers' final statistics" (C11 / C17): what a worker announces with its completion marker is what its
        # own solver reports once it has finished
        for sc in scs:
            st = streams[sc["id"]]
            for w, ws in enumerate(st["streams"]):
                if st.get("actual") and ws and ws[-1][1] is None and ws[-1][2] != st["actual"][w]:
                    for pfx in ("C11", "C17"):
                        cl = pfx + ":completion-marker-does-not-carry-the-worker's-final-statistics"
                        pre_failures.append((cl, {"clause": cl, "kind": "streams", "mode": sc["mode"], "scenario": sc, "worker": w,
                                                  "announced": ws[-1][2], "final": st["actual"][w], "gets": [],
                                                  "streams": [[m[1] for m in x] for x in st["streams"]], "var": sc["var"], "sols": []}))
                    break
        for sc, w, n, marks in malformed:
            scs.remove(sc)
            pre_failures.append(("C11:worker-stream-is-not-solutions-then-one-completion-marker",
                                 {"clause": "C11:worker-stream-is-not-solutions-then-one-completion-marker", "kind": "streams",
                                  "mode": sc["mode"], "scenario": sc, "worker": w, "messages": n, "marker_positions": marks,
                                  "gets": [], "streams": [[m[1] for m in ws] for ws in streams[sc["id"]]["streams"]],
                                  "var": sc["var"], "sols": []}))
        if synthetic:
            syn, syn_streams = synthetic_scenarios(tier, base_id=100000)
            scs = scs + syn
            streams.update(syn_streams)
        # scenarios small enough for the exhaustive exploration of arrival orders
        small, big = [], []
        for sc in scs:
            lens = [len(ws) for ws in streams[sc["id"]]["streams"]]
            (small if orders_count(lens) <= max_orders // 8 and sum(lens) <= 11 else big).append(sc)
        if not small:
            raise Machinery("no scenario small enough for exhaustive arrival orders")
        budget, chosen = max_orders, []
        # many scenarios with few arrival orders first (the reducer's case analysis depends on the values, not on the
        # length of the streams); the long ones take what is left of the budget
        for sc in sorted(small, key=lambda s: (orders_count([len(w) for w in streams[s["id"]]["streams"]]), s["id"])):
            c = orders_count([len(w) for w in streams[sc["id"]]["streams"]])
            if c <= budget:
                chosen.append(sc)
                budget -= c
        scfile = tmp / "scenarios.ndjson"
        with open(scfile, "w") as fh:
            for sc in chosen:
                fh.write(json.dumps(to_model_scenario(sc, streams[sc["id"]])) + "\n")
        # ---- MC: all interleavings, safety + termination
        r = run_tlc("MPSolver", "MP_safe.cfg", env={"SCENARIOS": str(scfile)}, workers=NCPU, timeout=2400, scratch=tmp)
        if r.error:
            if r.invariant_violated:
                rep.fail({"stage": "model", "what": r.error[:300]}, "MPSolver.tla: a C11 invariant is violated in the model: " + r.error[:300])
            else:
                raise Machinery("TLC failed on MPSolver/MP_safe: " + r.error)
        rep.add(states=r.distinct, transitions=r.generated)
        rep.cov["model_checking"] = {"spec": "spec/MPSolver.tla", "config": "MP_safe.cfg (FairSpec; invariants C11_Bag, "
                                     "C11_PrefixIsPartial, C11_Best, C11_ReturnsAfterAll, C11_NeverReadsBeyond; property C11_Returns)",
                                     "scenarios": len(chosen), "distinct_states": r.distinct, "states_generated": r.generated}
        # ---- S->C: every arrival order of the model replayed through the real parent loop
        r2 = run_tlc("MPSolver", "MP_orders.cfg", env={"SCENARIOS": str(scfile)}, workers=1, timeout=2400, scratch=tmp)
        if r2.error:
            raise Machinery("TLC failed on MPSolver/MP_orders: " + r2.error)
        orders = parse_orders(r2.tagged("ORDER"))
        jobs_sc = []
        nord = 0
        for sc in chosen:
            o = orders.get(sc["id"], [])
            want = orders_count([len(w) for w in streams[sc["id"]]["streams"]])
            if len(o) != want:
                raise Machinery(f"scenario {sc['id']}: TLC enumerated {len(o)} arrival orders, expected {want}")
            nord += len(o)
            s2 = dict(sc)
            s2["streams"] = streams[sc["id"]]["streams"]
            s2["orders"] = o
            jobs_sc.append(s2)
        jobs = [{"kind": "replay", "scenarios": jobs_sc[k::NCPU]} for k in range(NCPU) if jobs_sc[k::NCPU]]
        outs = run_workers("mp_worker.py", jobs, env, tmp, timeout=2400)
        byid = {sc["id"]: sc for sc in scs}
        recs = []
        for run in read_ndjson(outs):
            sc = byid[run["id"]]
            recs.append(run_record(sc, streams[sc["id"]], run, len(recs), "replay"))
        # ---- C->S: real processes, arrival order as the OS produced it
        realsc = [sc for sc in (big + small) if not sc.get("synthetic")][: (6 if tier == "quick" else 48)]
        outs = run_workers("mp_worker.py", [{"kind": "real", "scenarios": [sc]} for sc in realsc], env, tmp, timeout=600)
        nreal = 0
        for run in read_ndjson(outs):
            sc = byid[run["id"]]
            if run["outcome"] != "returned":
                rep.fail({"stage": "real", "scenario": sc, "outcome": run["outcome"], "raised": run["raised"]},
                         f"real multiprocessing run did not return: {run['outcome']} {run['raised']}")
                continue
            run["gets"] = arrivals_to_gets(run["arrivals"])
            recs.append(run_record(sc, streams[sc["id"]], run, len(recs), "real"))
            nreal += 1
        verdicts, judged, st, tr = validate_shards("MPTrace", "MPTrace.cfg", "RUNS", recs, tmp)
        rep.add(states=st, transitions=tr, traces_validated_against_impl=judged, evaluations=len(recs),
                distinct_nontrivial=sum(1 for x in recs if len(x["gets"]) > len(x["streams"])))
        rep.cov["arrival_orders_replayed_through_real_parent_loop"] = nord
        rep.cov["real_process_runs"] = nreal
        rep.cov["scenarios_total"] = len(scs)
        rep.cov["scenarios_with_all_orders"] = len(chosen)
        failures = list(pre_failures)
        seen = set()
        for rid, clause in verdicts:
            if (rid, clause) in seen:
                continue
            seen.add((rid, clause))
            rec = recs[rid]
            if clause.startswith("XX:"):
                raise Machinery(f"MPTrace: {clause} on {json.dumps(rec)[:400]}")
            if clause.startswith("DRIFT:"):
                continue
            failures.append((clause, {"clause": clause, "kind": rec["kind"], "mode": rec["mode"], "gets": rec["gets"],
                                      "streams": rec["streams"], "var": rec["var"], "sols": rec["sols"]}))
        rep.add(samples=[{"mode": x["mode"], "streams": x["streams"], "arrival_order": x["gets"], "kind": x["kind"]}
                         for x in recs[:: max(1, len(recs) // 4)][:4]])
    return recs, failures


def fault_plan(seed, tier):
    r = random.Random(seed * 31 + 5)
    base = [
        {"doms": [[0, 4], [0, 3]], "vidx": [0, 1], "voff": [0, 0],
         "props": [{"vars": [0, 1], "alg": "affine_leq", "params": [1, 1, 3]}, {"vars": [0, 1], "alg": "alldifferent", "params": []}]},
        {"doms": [[0, 5], [0, 2], [1, 3]], "vidx": [0, 1, 2], "voff": [0, 0, 0],
         "props": [{"vars": [0, 1, 2], "alg": "affine_eq", "params": [1, 1, -1, 2]}]},
    ]
    faults = []
    for P in base:
        for k in ((1, 2, 3) if tier == "quick" else (1, 2, 3, 4)):
            for mode in ("solve", "min"):
                sc = {"id": 0, "P": P, "k": k, "split_var": 0, "cfg": {}, "mode": mode, "var": 1}
                for victim in range(k):
                    points = [1, 2, 99] if tier == "quick" else [1, 2, 3, 99]
                    for kb in points:
                        faults.append({"sc": sc, "victim": victim, "kill_before": kb, "deadline": 25.0, "prior": 0})
                    if k >= 2:   # the same solver object used before, undisturbed (1 or 2 earlier calls), then a crash
                        faults.append({"sc": sc, "victim": victim, "kill_before": 1 + victim % 2, "deadline": 40.0,
                                       "prior": 1 + victim % 2})
    if tier == "quick":
        r.shuffle(faults)
        ctrl = [f for f in faults if f["kill_before"] == 99][:4]
        reuse = [f for f in faults if f["prior"] > 0][:8]
        faults = [f for f in faults if f["kill_before"] != 99 and f["prior"] == 0][:24] + reuse + ctrl
    hows = ["exit3", "exit0", "sigkill", "raise", "sysexit0"]
    for i, f in enumerate(faults):
        f["id"] = i
        f["how"] = "exit3" if f["kill_before"] == 99 else hows[i % len(hows)]
    return faults
