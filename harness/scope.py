"""In-contract input families for propagator calls (the scope of C05/C06/C07/C14/C16/C04-call).

Every family is an iterator of (alg, params, box).  TLC re-evaluates Constraints!InContract on every
record, so a generator that leaves the contract is reported as a machinery failure, never silently.
Families are deterministic; sampling uses a seeded stream so that all workers agree on the sample.
"""
from __future__ import annotations

import itertools
import random


def ivs(lo, hi):
    return [(a, b) for a in range(lo, hi + 1) for b in range(a, hi + 1)]


def boxes(n, lo, hi):
    return itertools.product(ivs(lo, hi), repeat=n)


def f_and(n):
    for b in boxes(n, 0, 1):
        yield "and", [], b


def f_affine(alg, n, coefs, ks, lo, hi):
    for cs in itertools.product(coefs, repeat=n):
        for k in ks:
            for b in boxes(n, lo, hi):
                yield alg, list(cs) + [k], b


def f_alldifferent(n, lo, hi):
    for b in boxes(n, lo, hi):
        yield "alldifferent", [], b


def f_count_eq(n, lo, hi):
    # x_0..x_{n-2} in window, counter in [-1, n]
    for a in range(lo, hi + 1):
        for xs in boxes(n - 1, lo, hi):
            for c in ivs(-1, n):
                yield "count_eq", [a], xs + (c,)


def f_element_iv(m, vlo, vhi):
    for lst in itertools.product(range(vlo, vhi + 1), repeat=m):
        for i in ivs(-1, m):
            for v in ivs(vlo, vhi):
                yield "element_iv", list(lst), (i, v)


def f_element_lic(n, lo, hi):
    for c in range(lo, hi + 1):
        for ls in boxes(n - 1, lo, hi):
            for i in ivs(-1, n - 1):
                yield "element_lic", [c], ls + (i,)


def f_element_liv(n, lo, hi):
    for ls in boxes(n - 2, lo, hi):
        for i in ivs(-1, n - 2):
            for v in ivs(lo, hi):
                yield "element_liv", [], ls + (i, v)


def f_exactly_eq(n, lo, hi):
    for a in range(lo, hi + 1):
        for c in range(-1, n + 2):
            for b in boxes(n, lo, hi):
                yield "exactly_eq", [a, c], b


def f_exactly_true(n):
    for c in range(-1, n + 2):
        for b in boxes(n, 0, 1):
            yield "exactly_true", [c], b


def f_gcc(n, v0, m, cap):
    for ls in itertools.product(range(0, cap + 1), repeat=m):
        for us in itertools.product(range(0, cap + 1), repeat=m):
            # l_j > u_j (an unsatisfiable but undocumented-as-illegal parametrisation) is kept when it exceeds by one
            if all(l <= u + 1 for l, u in zip(ls, us)):
                for b in boxes(n, v0, v0 + m - 1):
                    yield "gcc", [v0] + list(ls) + list(us), b


def f_lex(n, lo, hi):
    for b in boxes(n, lo, hi):
        yield "lexicographic_leq", [], b


def f_maxmin(alg, n, lo, hi):
    for b in boxes(n, lo, hi):
        yield alg, [], b


def f_circuit(alg, n):
    for b in boxes(n, 0, n - 1):
        yield alg, [], b


def f_circuit_perm(alg, n):
    """Every permutation of 0..n-1 as an instantiated successor vector (the circuit constraints are decisive on
    permutations, C06), and every one-step relaxation of it (one successor with two values)."""
    for p in itertools.permutations(range(n)):
        yield alg, [], tuple((v, v) for v in p)
        for i in range(n):
            if p[i] + 1 < n:
                yield alg, [], tuple((v, v + 1) if k == i else (v, v) for k, v in enumerate(p))


def f_relation(n, r, lo, hi):
    tuples = list(itertools.product(range(lo, hi + 1), repeat=n))
    for rows in itertools.product(tuples, repeat=r):
        flat = [x for row in rows for x in row]
        for b in boxes(n, lo, hi):
            yield "relation", flat, b


def f_dummy():
    for n in (1, 2):
        for b in boxes(n, -1, 1):
            yield "dummy", [], b
            yield "dummy", [3, 4], b


AFF = ("affine_eq", "affine_geq", "affine_leq")

# name -> (callable, size hint).  Sizes are only used to balance sampling.
FAMILIES = {}


def _reg(name, fn, *args):
    FAMILIES[name] = (fn, args)


for _n in (2, 3, 4, 5):
    _reg(f"and{_n}", f_and, _n)
for _a in AFF:
    _reg(f"{_a}1", f_affine, _a, 1, range(-2, 3), range(-4, 5), -2, 2)
    _reg(f"{_a}2", f_affine, _a, 2, range(-2, 3), range(-4, 5), -1, 2)
    _reg(f"{_a}3", f_affine, _a, 3, range(-2, 3), range(-3, 4), 0, 2)
    _reg(f"{_a}3n", f_affine, _a, 3, (-1, 1, 2), (-2, 0, 1, 3), -2, 1)
for _n in (1, 2, 3, 4):
    _reg(f"alldifferent{_n}", f_alldifferent, _n, -1, 2)
_reg("alldifferent5", f_alldifferent, 5, 0, 2)
for _n in (2, 3, 4):
    _reg(f"count_eq{_n}", f_count_eq, _n, -1, 1)
_reg("count_eq3w", f_count_eq, 3, -1, 2)
for _m in (1, 2, 3, 4):
    _reg(f"element_iv{_m}", f_element_iv, _m, -1, 1 if _m == 4 else 2)
for _n in (2, 3, 4):
    _reg(f"element_lic{_n}", f_element_lic, _n, -1, 1)
for _n in (3, 4, 5):
    _reg(f"element_liv{_n}", f_element_liv, _n, -1 if _n < 5 else 0, 1)
for _n in (1, 2, 3, 4):
    _reg(f"exactly_eq{_n}", f_exactly_eq, _n, -1, 1 if _n == 4 else 2)
for _n in (1, 2, 3, 4, 5):
    _reg(f"exactly_true{_n}", f_exactly_true, _n)
for _n in (1, 2, 3, 4):
    for _v0 in (-1, 0):
        for _m in (1, 2, 3):
            if _n == 4 and _m == 3 and _v0 == -1:
                continue
            _reg(f"gcc{_n}_{_v0}_{_m}", f_gcc, _n, _v0, _m, 2)
_reg("lex2", f_lex, 2, -1, 2)
_reg("lex4", f_lex, 4, 0, 2)
_reg("lex4n", f_lex, 4, -1, 1)
_reg("lex6", f_lex, 6, 0, 1)
_reg("lex6w", f_lex, 6, 0, 2)
_reg("lex8", f_lex, 8, 0, 1)
for _a in ("max_eq", "max_leq", "min_eq", "min_geq"):
    for _n in (2, 3, 4):
        _reg(f"{_a}{_n}", f_maxmin, _a, _n, -1, 2)
for _a in ("no_sub_cycle", "scc"):
    for _n in (1, 2, 3, 4):
        _reg(f"{_a}{_n}", f_circuit, _a, _n)
    for _n in (5, 6, 7):
        _reg(f"{_a}_perm{_n}", f_circuit_perm, _a, _n)
_reg("relation1_2", f_relation, 1, 2, 0, 2)
_reg("relation2_1", f_relation, 2, 1, 0, 2)
_reg("relation2_2", f_relation, 2, 2, 0, 2)
_reg("relation2_3", f_relation, 2, 3, 0, 1)
_reg("relation3_2", f_relation, 3, 2, 0, 1)
_reg("dummy", f_dummy)


# families small enough and structured enough to be run completely in the quick tier as well
FULL_IN_QUICK = {"lex8", "lex4", "lex4n", "alldifferent4", "alldifferent5",
                 "no_sub_cycle_perm5", "no_sub_cycle_perm6", "scc_perm5", "scc_perm6"}


def family(name):
    fn, args = FAMILIES[name]
    return fn(*args)


_SIZES = {}


def family_size(name):
    if name not in _SIZES:
        _SIZES[name] = sum(1 for _ in family(name))
    return _SIZES[name]


def alg_of(name):
    return next(family(name))[0]


# ---------------------------------------------------------------- random beyond the exhaustive scope


def rnd_iv(r, lo, hi, maxw):
    a = r.randint(lo, hi)
    return (a, min(hi, a + r.randint(0, maxw)))


def random_case(r: random.Random):
    """One random in-contract call of arity up to 7 with at most ~4000 tuples in the box."""
    alg = r.choice(["and", "affine_eq", "affine_geq", "affine_leq", "alldifferent", "count_eq", "element_iv",
                    "element_lic", "element_liv", "exactly_eq", "exactly_true", "gcc", "lexicographic_leq",
                    "max_eq", "max_leq", "min_eq", "min_geq", "no_sub_cycle", "relation", "scc"])
    for _ in range(50):
        c = _random_case(r, alg)
        size = 1
        for lo, hi in c[2]:
            size *= hi - lo + 1
        if size <= 4000:
            return c
    return c[0], c[1], tuple((lo, lo) for lo, _ in c[2])


def _random_case(r, alg):
    if alg == "and":
        n = r.randint(2, 7)
        return alg, [], tuple(rnd_iv(r, 0, 1, 1) for _ in range(n))
    if alg in AFF:
        n = r.randint(1, 6)
        cs = [r.choice([-5, -3, -2, -1, 0, 1, 1, 2, 3, 7]) for _ in range(n)]
        b = tuple(rnd_iv(r, -6, 6, r.choice([0, 1, 2, 3, 5])) for _ in range(n))
        mid = sum(c * (lo + hi) // 2 for c, (lo, hi) in zip(cs, b))
        return alg, cs + [mid + r.randint(-6, 6)], b
    if alg == "alldifferent":
        n = r.randint(2, 7)
        lo = r.randint(-3, 3)
        return alg, [], tuple(rnd_iv(r, lo, lo + n, r.choice([0, 1, 2, 3])) for _ in range(n))
    if alg == "count_eq":
        n = r.randint(2, 7)
        a = r.randint(-2, 2)
        return alg, [a], tuple(rnd_iv(r, a - 2, a + 2, 2) for _ in range(n - 1)) + (rnd_iv(r, -1, n, 3),)
    if alg == "element_iv":
        m = r.randint(1, 8)
        return alg, [r.randint(-4, 4) for _ in range(m)], (rnd_iv(r, -2, m + 1, m), rnd_iv(r, -5, 5, 5))
    if alg == "element_lic":
        n = r.randint(2, 7)
        return alg, [r.randint(-2, 2)], tuple(rnd_iv(r, -3, 3, 2) for _ in range(n - 1)) + (rnd_iv(r, -2, n, n),)
    if alg == "element_liv":
        n = r.randint(3, 7)
        return alg, [], tuple(rnd_iv(r, -3, 3, 2) for _ in range(n - 2)) + (rnd_iv(r, -2, n - 1, n), rnd_iv(r, -3, 3, 3))
    if alg == "exactly_eq":
        n = r.randint(1, 7)
        a = r.randint(-2, 2)
        return alg, [a, r.randint(-1, n + 1)], tuple(rnd_iv(r, a - 2, a + 2, 2) for _ in range(n))
    if alg == "exactly_true":
        n = r.randint(1, 8)
        return alg, [r.randint(-1, n + 1)], tuple(rnd_iv(r, 0, 1, 1) for _ in range(n))
    if alg == "gcc":
        n = r.randint(1, 7)
        m = r.randint(1, 5)
        v0 = r.randint(-3, 3)
        ls = [r.choice([0, 0, 0, 1, 2]) for _ in range(m)]
        us = [max(0, l + r.choice([-1, 0, 0, 1, 2, n, 40000])) for l in ls]
        return alg, [v0] + ls + us, tuple(rnd_iv(r, v0, v0 + m - 1, r.choice([0, 1, 2, m])) for _ in range(n))
    if alg == "lexicographic_leq":
        m = r.choice([1, 2, 3, 3, 4])
        lo = r.randint(-2, 1)
        return alg, [], tuple(rnd_iv(r, lo, lo + 2, r.choice([0, 1, 1, 2])) for _ in range(2 * m))
    if alg in ("max_eq", "max_leq", "min_eq", "min_geq"):
        n = r.randint(2, 7)
        return alg, [], tuple(rnd_iv(r, -5, 5, r.choice([0, 1, 3, 4])) for _ in range(n))
    if alg in ("no_sub_cycle", "scc"):
        n = r.randint(2, 7)
        return alg, [], tuple(rnd_iv(r, 0, n - 1, r.choice([0, 0, 1, 2, n])) for _ in range(n))
    if alg == "relation":
        n = r.randint(1, 4)
        rows = r.randint(1, 6)
        return alg, [r.randint(-2, 3) for _ in range(n * rows)], tuple(rnd_iv(r, -2, 3, r.choice([1, 2, 5])) for _ in range(n))
    raise ValueError(alg)


# ---------------------------------------------------------------- large arities (C16: scratch-array limits), no oracle


def big_case(r: random.Random):
    """In-contract calls with arities up to 40 and adversarial bounds for the algorithms with scratch arrays /
    index arithmetic (alldifferent, gcc, no_sub_cycle, scc, element_*, relation, lexicographic_leq, count_eq)."""
    alg = r.choice(["alldifferent", "alldifferent", "gcc", "gcc", "gcc", "no_sub_cycle", "scc", "element_iv",
                    "element_liv", "element_lic", "relation", "lexicographic_leq", "count_eq", "exactly_eq", "max_eq",
                    "min_eq", "affine_eq"])
    n = r.choice([1, 2, 3, 5, 8, 13, 21, 30, 40])
    if alg == "alldifferent":
        lo = r.choice([-50, -3, 0, 1, 1000])
        span = r.choice([1, n // 2 + 1, n, n + 1, 2 * n + 3])
        kind = r.choice(["tight", "wide", "points", "mixed"])
        box = []
        for _ in range(n):
            if kind == "points" or (kind == "mixed" and r.random() < 0.5):
                a = r.randint(lo, lo + span)
                box.append((a, a))
            elif kind == "tight":
                a = r.randint(lo, lo + span)
                box.append((a, min(lo + span, a + r.randint(0, 2))))
            else:
                box.append((lo, lo + span))
        return alg, [], tuple(box)
    if alg == "gcc":
        m = r.choice([1, 2, 3, 5, 8, 12])
        v0 = r.choice([-7, 0, 1, 100])
        ls = [r.choice([0, 0, 0, 1, 2]) for _ in range(m)]
        us = [max(0, l + r.choice([-1, 0, 0, 1, 2, n, 40000])) for l in ls]
        box = []
        for _ in range(n):
            a = r.randint(v0, v0 + m - 1)
            box.append((a, min(v0 + m - 1, a + r.choice([0, 0, 1, m]))))
        return alg, [v0] + ls + us, tuple(box)
    if alg in ("no_sub_cycle", "scc"):
        box = []
        for i in range(n):
            a = r.randint(0, n - 1)
            box.append((a, a) if r.random() < 0.5 else (a, min(n - 1, a + r.choice([1, 2, n]))))
        return alg, [], tuple(box)
    if alg == "element_iv":
        m = r.choice([1, 2, 7, 40])
        return alg, [r.randint(-9, 9) for _ in range(m)], ((r.randint(-5, 2), r.randint(2, m + 5)), (-10, 10))
    if alg == "element_liv":
        n = max(n, 3)
        return alg, [], tuple((r.randint(-3, 0), r.randint(0, 3)) for _ in range(n - 2)) + ((r.randint(-4, 1), r.randint(1, n + 4)), (-3, 3))
    if alg == "element_lic":
        n = max(n, 2)
        return alg, [r.randint(-2, 2)], tuple((r.randint(-3, 0), r.randint(0, 3)) for _ in range(n - 1)) + ((r.randint(-4, 1), r.randint(1, n + 4)),)
    if alg == "relation":
        n = min(n, 8)
        rows = r.choice([1, 3, 50])
        return alg, [r.randint(-2, 2) for _ in range(n * rows)], tuple((-2, 2) for _ in range(n))
    if alg == "lexicographic_leq":
        m = max(1, n // 2)
        return alg, [], tuple(rnd_iv(r, -1, 2, r.choice([0, 1, 3])) for _ in range(2 * m))
    if alg == "count_eq":
        n = max(n, 2)
        return alg, [r.randint(-1, 1)], tuple(rnd_iv(r, -2, 2, 2) for _ in range(n - 1)) + ((r.randint(-2, 3), r.randint(3, n + 2)),)
    if alg == "exactly_eq":
        return alg, [r.randint(-1, 1), r.randint(-1, n + 1)], tuple(rnd_iv(r, -2, 2, 2) for _ in range(n))
    if alg in ("max_eq", "min_eq"):
        n = max(n, 2)
        return alg, [], tuple(rnd_iv(r, -20, 20, r.choice([0, 3, 40])) for _ in range(n))
    if alg == "affine_eq":
        cs = [r.randint(-9, 9) for _ in range(n)]
        return alg, cs + [r.randint(-50, 50)], tuple(rnd_iv(r, -9, 9, r.choice([0, 2, 18])) for _ in range(n))
    raise ValueError(alg)
