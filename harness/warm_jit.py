"""Compile (or load from the cache) every engine routine once, so that parallel workers start warm.
Exercises both consistency algorithms, all variable and value heuristics, optimisation, and every propagator."""
import sys
import time

import numpy as np

t0 = time.time()
import nucs.propagators.propagators as pp
from nucs.heuristics.heuristics import DOM_HEURISTIC_FCTS, VAR_HEURISTIC_FCTS
from nucs.problems.problem import Problem
from nucs.solvers.backtrack_solver import BacktrackSolver
from nucs.solvers.consistency_algorithms import CONSISTENCY_ALG_FCTS

for ca in range(len(CONSISTENCY_ALG_FCTS)):
    for vh in range(len(VAR_HEURISTIC_FCTS)):
        for dh in range(len(DOM_HEURISTIC_FCTS)):
            p = Problem([(0, 2), (0, 2), (0, 2)])
            p.add_propagator(([0, 1, 2], pp.ALG_ALLDIFFERENT, []))
            p.add_propagator(([0, 1], pp.ALG_AFFINE_LEQ, [1, -1, 0]))
            cost = [[1, 2, 3]] * 3
            s = BacktrackSolver(p, consistency_alg_idx=ca, var_heuristic_idx=vh, dom_heuristic_idx=dh,
                                var_heuristic_params=cost, dom_heuristic_params=cost, log_level="ERROR")
            s.find_all()      # results are not judged here: the warm-up only compiles (the checks judge)
p = Problem([(0, 3), (0, 3)])
p.add_propagator(([0, 1], pp.ALG_AFFINE_EQ, [1, 1, 3]))
s = BacktrackSolver(p, log_level="ERROR")
s.minimize(0)
BacktrackSolver(p, log_level="ERROR").maximize(0)
# every compute_domains once (address table compiles them all anyway)
print(f"warm_jit: {time.time()-t0:.1f}s")
