"""C16: no in-contract input makes the engine index outside its arrays (monitoring level).

The specification defines the in-contract input space (Constraints!InContract, NucsAbs!WellFormed) and has no
counterpart for an IndexError: any execution in which the runtime's own bounds checks fire is rejected.
  A. the call corpus + large-arity calls, interpreted (NumPy checks every index)
  B. the same under a NUMBA_BOUNDSCHECK=1 build of the compiled propagators
  C. the engine corpus, interpreted (Layer A: an IndexError event has no specification step)
  D. engine runs under the bounds-check build; an error raised inside a routine reached through a function address
     is only printed ("Exception ignored ... IndexError"), so the oracle is that marker on stderr.
"""
import json
import random
import subprocess
import time

import calls
import engine
import problems
from common import HARNESS, NCPU, PY, Machinery, Report, Scratch, nucs_env, warm_jit

MARKERS = ("IndexError", "index is out of bounds", "Exception ignored")


def bc_engine_runs(rep, tier, seed, tmp):
    r = random.Random(seed * 7 + 3)
    n = 320 if tier == "quick" else 6000
    items = []
    for k in range(n):
        P = problems.random_problem(r, cap=400)
        cfg = problems.random_config(r, P)
        items.append({"rid": k, "runs": [{"P": P, "cfg": cfg, "mode": r.choice(["solve", "solve", "min", "max"]),
                                           "var": r.randrange(len(P["vidx"]))}]})
    env = nucs_env(jit=True, boundscheck=True)
    procs = []
    for k in range(NCPU):
        part = items[k::NCPU]
        if not part:
            continue
        jf, out, err = tmp / f"bc-{k}.job.json", tmp / f"bc-{k}.ndjson", tmp / f"bc-{k}.stderr"
        jf.write_text(json.dumps({"items": part, "timeout": 60.0}))
        p = subprocess.Popen([PY, str(HARNESS / "rec_rewrites.py"), str(jf), str(out)], env=env, stdout=subprocess.DEVNULL,
                             stderr=open(err, "wb"), cwd=str(tmp))
        procs.append((p, part, out, err))
    t0 = time.time()
    hits = []
    done = 0
    pending = list(procs)
    while pending and time.time() - t0 < (600 if tier == "quick" else 3000):
        time.sleep(0.5)
        for tup in list(pending):
            p, part, out, err = tup
            text = err.read_bytes()[:200000].decode("utf8", "replace") if err.exists() else ""
            if any(m in text for m in MARKERS):
                nlines = out.read_bytes().count(b"\n") if out.exists() else 0
                p.kill()
                hits.append((part[min(nlines, len(part) - 1)], text[:400]))
                pending.remove(tup)
            elif p.poll() is not None:
                if p.returncode != 0:
                    raise Machinery(f"bounds-check engine worker failed rc={p.returncode}: {text[-800:]}")
                pending.remove(tup)
    for p, *_ in pending:
        p.kill()
    for p, part, out, err in procs:
        if out.exists():
            done += out.read_bytes().count(b"\n")
    for it, text in hits:
        run = it["runs"][0]
        rep.fail({"P": run["P"], "cfg": run["cfg"], "mode": run["mode"], "var": run["var"], "clause": "C16:bounds-check-fired",
                  "stage": "engine-boundscheck"}, f"the bounds-check build reports an out-of-bounds access: {text[:200]} on {json.dumps(run)[:300]}")
    rep.cov["engine_runs_under_boundscheck_build"] = done
    rep.add(evaluations=done)


def c16(tier, seed, replay):
    rep = Report("C16", tier, "exploration")
    nbig = 4000 if tier == "quick" else 80000
    total_nt = 0
    # A + B: propagator calls
    for jit, bc in ((False, False), (True, True)):
        if jit:
            warm_jit(boundscheck=True)
        r = calls.run_corpus(tier, seed, ("C16:",), jit=jit, boundscheck=bc, nbig=nbig,
                             nrandom=4000 if tier == "quick" else 60000)
        for rec, clause in r["failures"]:
            case = calls.case_key(rec)
            case.update({"clause": clause, "mode": "boundscheck-build" if jit else "interpreted"})
            rep.fail(case, f"{clause} on {rec['alg']} params={rec['params'][:30]} box={rec['inbox'][:12]} ({case['mode']})")
        rep.add(evaluations=r["records"], states=r["states"], transitions=r["transitions"],
                traces_validated_against_impl=r["judged"])
        total_nt += r["nontrivial"]
        rep.add(samples=r["samples"][:2])
        rep.cov[("boundscheck:" if jit else "interpreted:") + "calls"] = r["records"]
    # C: engine corpus interpreted
    er = engine.report_engine(rep, tier, seed, "C16", ("C16:",), "no IndexError event in any engine trace")
    engine_rule = rep.cov["rule"]
    # D: engine under the bounds-check build
    with Scratch("bc") as tmp:
        bc_engine_runs(rep, tier, seed, tmp)
    rep.cov["distinct_nontrivial"] = total_nt + er["nontrivial"]
    rep.cov["rule"] = ("CALLS: the exhaustive small-scope families and seeded random calls of harness/scope.py plus large-arity "
                       "calls (arity up to 40, gcc with up to 12 values, adversarial bounds) executed interpreted and under "
                       "a NUMBA_BOUNDSCHECK=1 build; TLC re-checks InContract on every record and rejects any IndexError. "
                       "ENGINE: " + engine_rule + " The same kind of instances also run under the bounds-check build, "
                       "where the oracle is the runtime's error marker on stderr.")
    rep.assumptions += ["monitoring level: an out-of-bounds access on an input the corpus never reaches is not detected",
                        "negative indices that Python/Numba semantics wrap are in-bounds by definition",
                        "the interior of the Hall-interval algorithms is not modelled; the specification only delimits "
                        "the in-contract input space"]
    return rep.finish()
