"""Negative controls: demonstrate that the specifications are bound and not vacuous.

  ./check controls
    1. mutated copies of spec/NucsMech.tla / MechOps.tla must violate the named invariant (the invariants can fail);
    2. corrupted copies of real recorded traces must be rejected by AbsTrace / CallTrace / MPTrace / Models with the
       expected clause (the trace specifications constrain more than the length of a trace).
Exit 0 when every control behaves as expected, 2 otherwise (a failing control is a machinery failure).
"""
from __future__ import annotations

import copy
import json
import shutil

import engine
import mc
from common import NCPU, SPEC, VERIF, Machinery, Scratch, nucs_env, read_ndjson, run_tlc, run_workers, validate_shards

SPEC_MUTANTS = [
    # (name, file, old, new, family, invariants, expected violated)
    ("pop-never-reconsiders-previous", "MechOps.tla",
     "ELSE IF prev # 0 /\\ trig[prev] THEN prev ELSE 0", "ELSE 0", "core",
     ["C01_ReportedSat", "C08_Fixpoint"], {"C01_ReportedSat", "C08_Fixpoint"}),
    ("write-back-last-position-wins", "MechOps.tla",
     "nlo == IF box[d][1] < lo THEN lo ELSE box[d][1]", "nlo == lo", "pairs",
     ["C08_Shrinks", "C08_Fixpoint", "C07_EnabledSound", "C08_KeepsSolutions"],
     {"C08_Shrinks", "C08_Fixpoint", "C07_EnabledSound", "C08_KeepsSolutions"}),
    ("min-value-alternative-skips-a-value", "MechOps.tla",
     "[levels |-> << [box EXCEPT ![d] = <<v + 1, box[d][2]>>], [box EXCEPT ![d] = <<box[d][1], v>>] >>,\n   upd    |-> << <<d - 1, GroundEv(<<v + 1, box[d][2]>>, EvMin)>> >>,\n   events |-> EvMax + EvGround]",
     "[levels |-> << [box EXCEPT ![d] = <<v + 2, box[d][2]>>], [box EXCEPT ![d] = <<box[d][1], v>>] >>,\n   upd    |-> << <<d - 1, GroundEv(<<v + 2, box[d][2]>>, EvMin)>> >>,\n   events |-> EvMax + EvGround]",
     "core", ["C02_Complete", "C02_Accounted"], {"C02_Complete", "C02_Accounted"}),
    ("choice-not-counted", "NucsMech.tla", "/\\ stats' = [Stat(CH) EXCEPT ![DEPTH]", "/\\ stats' = [stats EXCEPT ![DEPTH]", "core",
     ["C17_Exact"], {"C17_Exact"}),
    ("shaving-never-undoes-an-unrefuted-probe", "NucsMech.tla",
     "below == IF has THEN doms[Top - 1]", "below == IF TRUE THEN doms[Top - 1]", "shaving",
     ["C10_Sound", "C02_Complete"], {"C10_Sound", "C02_Complete"}),
    ("second-call-without-restart", "NucsMech.tla",
     "/\\ doms' = << P.doms >> /\\ ne' = << AllTrue(NProp(P)) >> /\\ upd' = << >> /\\ trig' = AllTrue(NProp(P))\n  /\\ prev' = 0 /\\ pc' = \"consistency\"",
     "/\\ UNCHANGED <<doms, ne, upd, trig>>\n  /\\ prev' = 0 /\\ pc' = \"consistency\"", "mixed",
     ["C01_ReportedSat", "C02_Complete", "C03_Optimal", "C03_NeverSearchesEmpty"], {"C01_ReportedSat", "C02_Complete", "C03_Optimal", "C03_NeverSearchesEmpty"}),
    ("tighten-does-not-exclude-the-incumbent", "NucsMech.tla",
     "THEN [P.doms EXCEPT ![ObjDom] = <<@[1], val - 1 - OffOf(P, P.cfg.var)>>]",
     "THEN [P.doms EXCEPT ![ObjDom] = <<@[1], val - OffOf(P, P.cfg.var)>>]", "opt", ["TypeOK"], {"Terminates"}),
]


# mutated copies of the mechanism must fail the MATCHING CLAUSE of Layer A in the refinement check (spec/MechRefines.tla):
# the clauses that judge the real engine are strong enough to catch, at design level, the kind of change they are for
REFINE_MUTANTS = [
    # (name, file, old, new, family, expected clause among the failed ones)
    ("min-value-does-not-announce-ground", "MechOps.tla",
     "   upd    |-> << <<d - 1, GroundEv(<<v + 1, box[d][2]>>, EvMin)>> >>,\n   events |-> EvMax + EvGround]",
     "   upd    |-> << <<d - 1, GroundEv(<<v + 1, box[d][2]>>, EvMin)>> >>,\n   events |-> EvMax]", "core", {"C09:announces"}),
    ("pop-never-reconsiders-previous", "MechOps.tla",
     "ELSE IF prev # 0 /\\ trig[prev] THEN prev ELSE 0", "ELSE 0", "core", {"C08:fixpoint", "C08:greatest-fixpoint", "C01:sat-all"}),
    ("backtrack-keeps-the-flags-of-the-level-it-leaves", "NucsMech.tla",
     "ELSE /\\ doms' = SubSeq(doms, 1, Top - 1) /\\ ne' = SubSeq(ne, 1, Top - 1) /\\ upd' = SubSeq(upd, 1, Top - 2)",
     "ELSE /\\ doms' = SubSeq(doms, 1, Top - 1) /\\ ne' = Append(SubSeq(ne, 1, Top - 2), ne[Top]) /\\ upd' = SubSeq(upd, 1, Top - 2)",
     "mixed", {"C07:restores-flags"}),
    ("choice-not-counted", "NucsMech.tla", "/\\ stats' = [Stat(CH) EXCEPT ![DEPTH]", "/\\ stats' = [stats EXCEPT ![DEPTH]", "core",
     {"C17:stats-exact"}),
    ("shaving-never-gives-an-unrefuted-value-back", "NucsMech.tla",
     "below == IF has THEN doms[Top - 1]", "below == IF TRUE THEN doms[Top - 1]", "shaving", {"C10:probe-restore"}),
    ("backtrack-forgets-the-wake-up", "NucsMech.tla",
     "/\\ trig' = AddProps(P, trig, ne[Top - 1], upd[Top - 1][1] + 1, upd[Top - 1][2])\n       /\\ stats' = Stat(BT)",
     "/\\ trig' = trig\n       /\\ stats' = Stat(BT)", "mixed", {"C09:moved-bounds-not-announced-to-the-watchers"}),
]


def refine_controls(tmp, out):
    import os, re, subprocess
    from common import TLC_CP
    ok = True
    for name, fname, old, new, fam, expected in REFINE_MUTANTS:
        d = tmp / f"refine-{name}"
        shutil.copytree(SPEC, d)
        text = (d / fname).read_text()
        if old not in text:
            out.append({"control": "refines:" + name, "ok": False, "why": "pattern not found in " + fname})
            ok = False
            continue
        (d / fname).write_text(text.replace(old, new, 1))
        f, n = mc.gen_family(tmp, fam, 1500, 3)
        cfg = d / "ctrl.cfg"
        cfg.write_text("SPECIFICATION RSpec\nCHECK_DEADLOCK FALSE\nINVARIANT Refines\n")
        meta = tmp / f"meta-refine-{name}"
        cmd = ["java", "-XX:+UseParallelGC", "-Xss16m", "-cp", TLC_CP, "tlc2.TLC", "-workers", str(NCPU), "-metadir", str(meta),
               "-noGenerateSpecTE", "-config", str(cfg), str(d / "MechRefines.tla")]
        p = subprocess.run(cmd, cwd=str(d), env=dict(os.environ, FAMILY=str(f)), capture_output=True, text=True, timeout=900)
        text_out = p.stdout + p.stderr
        got = set(re.findall(r'"(C\d\d:[^"]+)"', "".join(re.findall(r"^/\\ bad = (\{.*\})$", text_out, re.M))))
        hit = "Invariant Refines is violated" in text_out and bool(got & expected)
        out.append({"control": "refines:" + name, "ok": hit, "failed_clauses": sorted(got), "expected_one_of": sorted(expected)})
        ok = ok and hit
    return ok


def spec_controls(tmp, out):
    ok = True
    for name, fname, old, new, fam, invs, expected in SPEC_MUTANTS:
        d = tmp / f"spec-{name}"
        shutil.copytree(SPEC, d)
        text = (d / fname).read_text()
        if old not in text:
            out.append({"control": name, "ok": False, "why": "pattern not found in " + fname})
            ok = False
            continue
        (d / fname).write_text(text.replace(old, new, 1))
        f, n = mc.gen_family(tmp, fam, 1500, 3)
        cfg = d / "ctrl.cfg"
        live = "Terminates" in expected
        cfg.write_text(("SPECIFICATION FairSpec\nCHECK_DEADLOCK FALSE\nPROPERTY Terminates\n" if live else
                        "SPECIFICATION Spec\nCHECK_DEADLOCK FALSE\n" + "".join(f"INVARIANT {i}\n" for i in invs)))
        import subprocess, time, os, re
        from common import TLC_CP
        meta = tmp / f"meta-{name}"
        cmd = ["java", "-XX:+UseParallelGC", "-Xss16m", "-cp", TLC_CP, "tlc2.TLC", "-workers", str(NCPU), "-metadir", str(meta),
               "-noGenerateSpecTE", "-config", str(cfg), str(d / "NucsMech.tla")]
        env = dict(os.environ, FAMILY=str(f))
        try:
            p = subprocess.run(cmd, cwd=str(d), env=env, capture_output=True, text=True, timeout=900 if not live else 240)
            text_out = p.stdout + p.stderr
        except subprocess.TimeoutExpired as e:
            text_out = (e.stdout or b"").decode() if isinstance(e.stdout, bytes) else (e.stdout or "")
            if live:   # a restart loop that never makes progress: an unbounded state space is the violation itself
                text_out += "\nTemporal property Terminates was violated (state space does not close)"
        got = set(re.findall(r"Invariant (\S+) is violated", text_out))
        if re.search(r"Temporal propert(y|ies) .*violated", text_out):
            got.add("Terminates")
        hit = bool(got & expected)
        out.append({"control": "spec:" + name, "ok": hit, "violated": sorted(got), "expected_one_of": sorted(expected)})
        ok = ok and hit
    return ok


def trace_controls(tmp, out):
    import random
    r = random.Random(5)
    items = engine.build_items("quick", 11, "C17", n=160)
    for k, it in enumerate(items):
        it["id"] = k
    jobs = [{"items": items[k::NCPU], "probes": True} for k in range(NCPU) if items[k::NCPU]]
    outs = run_workers("rec_engine.py", jobs, nucs_env(jit=False), tmp, timeout=900)
    traces = list(read_ndjson(outs))
    base_verdicts, *_ = validate_shards("AbsTrace", "AbsTrace.cfg", "TRACES", traces, tmp)
    if base_verdicts:
        out.append({"control": "trace:baseline", "ok": False, "why": f"clean traces rejected: {base_verdicts[:3]}"})
        return False

    def pick(pred):
        for t in traces:
            for i, e in enumerate(t["ev"]):
                if pred(t, i, e):
                    return copy.deepcopy(t), i
        return None, None

    controls = []
    t, i = pick(lambda t, i, e: e["k"] == "Y" and t["mode"] == "solve")
    if t:
        t["ev"][i]["sol"][0] += 1
        controls.append(("yielded-value-altered", t, {"C01:solution-vector"}))
    t, i = pick(lambda t, i, e: e["k"] == "Y" and sum(1 for x in t["ev"] if x["k"] == "Y") >= 2 and t["ev"][-1]["k"] == "D")
    if t:
        # drop one complete resume..yield segment is hard to do consistently: duplicate a yield instead
        j = max(k for k, x in enumerate(t["ev"]) if x["k"] == "Y")
        t["ev"][j]["sol"] = list(next(x for x in t["ev"] if x["k"] == "Y")["sol"])
        controls.append(("yield-duplicated", t, {"C01:solution-vector", "C02:fresh"}))
    t, i = pick(lambda t, i, e: e["k"] == "D")
    if t:
        t["ev"][i]["stats"][6] += 1
        controls.append(("filter-counter-altered", t, {"C17:stats-exact"}))
    t, i = pick(lambda t, i, e: e["k"] == "B" and e["d"] == 0 and len(e["levels"]) == 2)
    if t:
        e = t["ev"][i]
        d = e["dom"]
        e["levels"][0][d][0] -= 1     # the alternative now overlaps the branch taken
        controls.append(("alternative-overlaps-the-branch", t, {"C09:partition-disjoint", "C09:partition-cover", "C09:announces-alternative"}))
    t, i = pick(lambda t, i, e: e["k"] == "B" and e["d"] == 0)
    if t:
        t["ev"][i]["events"] = 0
        controls.append(("branch-announces-nothing", t, {"C09:announces"}))
    t, i = pick(lambda t, i, e: e["k"] == "P" and e["alg"] == 0 and e["st"] == 1 and any(lo < hi for lo, hi in e["out"]))
    if t:
        e = t["ev"][i]
        d = next(k for k, (lo, hi) in enumerate(e["out"]) if lo < hi)
        e["out"][d][1] += 5          # a pass that enlarges a domain
        controls.append(("pass-enlarges-a-domain", t, {"C08:shrinks", "C08:greatest-fixpoint"}))
    t, i = pick(lambda t, i, e: e["k"] == "R" and e["ok"] and e["d"] == 0)
    if t:
        t["ev"][i]["en"] = [not x for x in t["ev"][i]["en"]]
        controls.append(("backtrack-restores-other-flags", t, {"C07:restores-flags"}))
    t, i = pick(lambda t, i, e: e["k"] == "O" and not e["none"] and t["mode"] in ("min", "max"))
    if t:
        k = t["var"]
        t["ev"][i]["sol"][k] += 1 if t["mode"] == "min" else -1
        controls.append(("optimum-altered", t, {"C03:returns-incumbent", "C03:optimal"}))
    ok = True
    recs = []
    for n, (name, t, exp) in enumerate(controls):
        t["id"] = 900000 + n
        recs.append(t)
    verdicts, *_ = validate_shards("AbsTrace", "AbsTrace.cfg", "TRACES", recs, tmp, shards=1)
    for n, (name, t, exp) in enumerate(controls):
        got = {c for rid, l, c in verdicts if rid == 900000 + n}
        hit = bool(got & exp)
        out.append({"control": "trace:" + name, "ok": hit, "clauses": sorted(got), "expected_one_of": sorted(exp)})
        ok = ok and hit
    if len(controls) < 6:
        out.append({"control": "trace:coverage", "ok": False, "why": f"only {len(controls)} controls could be built"})
        ok = False
    return ok


def call_controls(tmp, out):
    recs = [
        {"id": 1, "alg": "alldifferent", "params": [], "inbox": [[0, 1], [0, 1], [0, 2]], "status": 1, "outbox": [[0, 1], [0, 1], [2, 2]], "status2": 1, "outbox2": [[0, 1], [0, 1], [2, 2]]},
        {"id": 2, "alg": "alldifferent", "params": [], "inbox": [[0, 1], [0, 1], [0, 2]], "status": 1, "outbox": [[0, 1], [0, 1], [0, 2]], "status2": 1, "outbox2": [[0, 1], [0, 1], [0, 2]]},
        {"id": 3, "alg": "alldifferent", "params": [], "inbox": [[0, 1], [0, 1], [0, 2]], "status": 1, "outbox": [[0, 0], [0, 1], [2, 2]], "status2": 1, "outbox2": [[0, 0], [0, 1], [2, 2]]},
        {"id": 4, "alg": "affine_leq", "params": [1, 1, 1], "inbox": [[0, 1], [0, 1]], "status": 2, "outbox": [[0, 1], [0, 1]], "status2": 2, "outbox2": [[0, 1], [0, 1]]},
        {"id": 5, "alg": "affine_leq", "params": [1, 1, 1], "inbox": [[1, 1], [1, 1]], "status": 1, "outbox": [[1, 1], [1, 1]], "status2": 1, "outbox2": [[1, 1], [1, 1]]},
    ]
    verdicts, *_ = validate_shards("CallTrace", "CallTrace.cfg", "CALLS", recs, tmp, shards=1)
    by = {}
    for rid, c in verdicts:
        by.setdefault(rid, set()).add(c)
    want = {1: set(), 2: {"C14:not-hull"}, 3: {"C05:lost-support"}, 4: {"C07:premature-entailment"}, 5: {"C06:ground-violated-accepted"}}
    ok = True
    for rid, exp in want.items():
        got = by.get(rid, set())
        hit = (got == set()) if not exp else exp <= got
        out.append({"control": f"call:{rid}", "ok": hit, "clauses": sorted(got), "expected": sorted(exp)})
        ok = ok and hit
    return ok


def lemma_controls(tmp, out):
    """spec/Triggers.tla: weakened trigger masks must be found insufficient, the shape of the real ones sufficient."""
    recs = [
        {"alg": "no_sub_cycle", "n": 3, "params": [], "lo": 0, "hi": 2, "masks": [4, 4, 4]},    # pinned tree: GROUND only
        {"alg": "no_sub_cycle", "n": 3, "params": [], "lo": 0, "hi": 2, "masks": [7, 7, 7]},
        {"alg": "scc", "n": 3, "params": [], "lo": 0, "hi": 2, "masks": [4, 4, 4]},
        {"alg": "scc", "n": 3, "params": [], "lo": 0, "hi": 2, "masks": [3, 3, 3]},
        {"alg": "affine_leq", "n": 2, "params": [1, 1, 2], "lo": 0, "hi": 2, "masks": [1, 0]},  # second variable unwatched
        {"alg": "affine_leq", "n": 2, "params": [1, 1, 2], "lo": 0, "hi": 2, "masks": [1, 1]},
        {"alg": "alldifferent", "n": 3, "params": [], "lo": 0, "hi": 2, "masks": [4, 4, 4]},
        {"alg": "alldifferent", "n": 3, "params": [], "lo": 0, "hi": 2, "masks": [3, 3, 3]},
    ]
    for k, x in enumerate(recs):
        x["rid"] = k
    verdicts, *_ = validate_shards("Triggers", "Triggers.cfg", "TRIGGER_RECS", recs, tmp, shards=4)
    bad = {rid for rid, c in verdicts if c == "C08:declared-triggers-insufficient"}
    ok = True
    for k, x in enumerate(recs):
        want = k % 2 == 0
        hit = (k in bad) == want
        out.append({"control": f"triggers:{x['alg']}:{x['masks']}", "ok": hit, "expected": "insufficient" if want else "sufficient"})
        ok = ok and hit
    return ok


def _queens(n):
    import itertools
    # the model's vector: the n columns followed by the two diagonal views (x_i + i, x_i - i)
    return [list(p) + [p[i] + i for i in range(n)] + [p[i] - i for i in range(n)] for p in itertools.permutations(range(n))
            if all(abs(p[i] - p[j]) != j - i for i in range(n) for j in range(i + 1, n))]


def models_controls(tmp, out):
    """spec/Models.tla: a corrupted object, a wrong count and a duplicate must be rejected (records written by hand from an
    independent enumeration of 5-queens)."""
    sols = _queens(5)
    base = {"name": "queens", "args": [5], "sb": False, "mode": "solve", "ok": "ok", "sols": sols, "count": len(sols),
            "full": True, "none": True, "opt": 0, "gid": 0, "group": []}
    bad_obj = copy.deepcopy(base)
    bad_obj["sols"][3][0], bad_obj["sols"][3][1] = bad_obj["sols"][3][1], bad_obj["sols"][3][0]
    short = copy.deepcopy(base)
    short["sols"] = short["sols"][:-1]
    short["count"] -= 1
    dup = copy.deepcopy(base)
    dup["sols"][-1] = dup["sols"][0]
    other = copy.deepcopy(base)
    other["group"] = [{"count": 9, "full": True, "sb": False, "none": True, "opt": 0}]
    recs = [base, bad_obj, short, dup, other]
    for k, x in enumerate(recs):
        x["rid"] = k
    verdicts, *_ = validate_shards("Models", "Models.cfg", "MODEL_RUNS", recs, tmp, shards=1)
    by = {}
    for rid, c in verdicts:
        by.setdefault(rid, set()).add(c)
    want = {0: set(), 1: {"C20:invalid-object"}, 2: {"C20:count-differs-from-the-literature"}, 3: {"C20:duplicated-object"},
            4: {"C20:count-depends-on-the-configuration"}}
    ok = True
    for rid, exp in want.items():
        got = by.get(rid, set())
        hit = (got == set()) if not exp else exp <= got
        out.append({"control": f"models:{rid}", "ok": hit, "clauses": sorted(got), "expected": sorted(exp)})
        ok = ok and hit
    return ok


def mp_controls(tmp, out):
    """spec/MPTrace.tla: a REAL run of the parent loop (synthetic worker streams, a fixed arrival order) is accepted;
    the same record with a dropped yield, a shortened arrival order, a wrong optimum or altered totals is rejected."""
    import mp
    scs, streams = mp.synthetic_scenarios("quick", base_id=0)
    pick = []
    for sc in scs:
        lens = [len(w) for w in streams[sc["id"]]["streams"]]
        if sc["mode"] == "solve" and lens == [3, 3] and not any(p["mode"] == "solve" for p in pick):
            pick.append(sc)
        if sc["mode"] == "min" and lens == [3, 2] and not any(p["mode"] == "min" for p in pick):
            pick.append(sc)
    jobs = []
    for sc in pick:
        st = streams[sc["id"]]["streams"]
        order = [[w + 1, i + 1] for i in range(max(len(x) for x in st)) for w in range(len(st)) if i < len(st[w])]
        jobs.append(dict(sc, streams=st, orders=[order]))
    outs = run_workers("mp_worker.py", [{"kind": "replay", "scenarios": jobs}], nucs_env(jit=False), tmp, timeout=300)
    byid = {sc["id"]: sc for sc in pick}
    recs, names, want = [], [], []

    def add(name, rec, exp):
        rec = copy.deepcopy(rec)
        rec["rid"] = len(recs)
        recs.append(rec)
        names.append(name)
        want.append(exp)

    for run in read_ndjson(outs):
        sc = byid[run["id"]]
        base = mp.run_record(sc, streams[sc["id"]], run, 0, "replay")
        add(f"{sc['mode']}:real-run", base, set())
        x = copy.deepcopy(base)
        x["agg"][3] += 1
        add(f"{sc['mode']}:totals-altered", x, {"C17:mp-stats-not-sums"})
        x = copy.deepcopy(base)
        x["gets"] = x["gets"][:-1]
        add(f"{sc['mode']}:returns-before-the-last-marker", x, {"C11:returns-before-all-finished"})
        if sc["mode"] == "solve":
            x = copy.deepcopy(base)
            x["yields"] = x["yields"][:-1]
            add("solve:dropped-yield", x, {"C11:yields-differ-from-what-the-workers-sent"})
            x = copy.deepcopy(base)
            x["yields"][0] = x["yields"][1]
            add("solve:duplicated-yield", x, {"C11:yields-differ-from-what-the-workers-sent"})
        else:
            x = copy.deepcopy(base)
            x["ret"] = [x["ret"][0] + 1]
            add("min:not-the-best", x, {"C11:not-the-best-incumbent"})
            x = copy.deepcopy(base)
            x["none"], x["ret"] = True, []
            add("min:none-although-incumbent", x, {"C11:none-iff-no-incumbent"})
    if len(recs) < 10:
        raise Machinery(f"mp controls: expected two real runs, got {len(recs)} records")
    verdicts, *_ = validate_shards("MPTrace", "MPTrace.cfg", "RUNS", recs, tmp, shards=1)
    by = {}
    for rid, c in verdicts:
        if not c.startswith("DRIFT:"):
            by.setdefault(rid, set()).add(c)
    ok = True
    for k, (name, exp) in enumerate(zip(names, want)):
        got = by.get(k, set())
        hit = (got == set()) if not exp else exp <= got
        out.append({"control": f"mp:{name}", "ok": hit, "clauses": sorted(got), "expected": sorted(exp)})
        ok = ok and hit
    return ok


NEXT_ACTIONS = ["CallConsistency", "BCReturn", "Filter", "SearchBound", "SearchBranch", "SearchFail", "Yield", "ResumeEnum",
                "Exhausted", "Incumbent", "OptExhausted", "ShLoop", "ShMain", "ShPick", "ShJudge", "CallAgain"]
WITNESSES = [("mixed", ["Never_Solution", "Never_Done", "Never_Disabled", "Never_Backtrack", "Never_PassFails", "Never_ThreeLevels", "Never_SecondCall"]),
             ("opt", ["Never_Incumbent"]), ("shaving", ["Never_ShavingShaves"]), ("cap", ["Never_CapacityError"])]


def vacuity_controls(tmp, out):
    """The model-checked invariants are not vacuous: every action of NucsMech's Next is taken on the families, and the
    states the invariants talk about (a reported solution, a disabled constraint, a failed pass, a shave, an
    incumbent, the capacity error ...) are REACHED - each Never_* 'invariant' must be violated."""
    import re
    ok = True
    taken = {}
    for fam, names in WITNESSES:
        f, n = mc.gen_family(tmp, fam, 300, 1)
        cfg = tmp / f"MC_cov_{fam}.cfg"
        cfg.write_text("SPECIFICATION Spec\nCHECK_DEADLOCK FALSE\nINVARIANT TypeOK\n")
        r = run_tlc("NucsMech", str(cfg), env={"FAMILY": str(f)}, workers=NCPU, timeout=900, scratch=tmp, extra=["-coverage", "1"])
        if r.error:
            raise Machinery(f"coverage run failed on {fam}: {r.error}")
        for m in re.finditer(r"^<(\w+) line \d+, col \d+ to line \d+, col \d+ of module NucsMech>: (\d+):(\d+)", r.out, re.M):
            taken[m.group(1)] = max(taken.get(m.group(1), 0), int(m.group(2)))
        for name in names:
            c2 = tmp / f"MC_wit_{name}.cfg"
            c2.write_text(f"SPECIFICATION Spec\nCHECK_DEADLOCK FALSE\nINVARIANT {name}\n")
            r2 = run_tlc("NucsMech", str(c2), env={"FAMILY": str(f)}, workers=NCPU, timeout=900, scratch=tmp)
            hit = name in mc._violated(r2.out)
            out.append({"control": f"reachable:{name[6:]}@{fam}", "ok": hit, "expected": "the Never_ invariant is violated (state reached)"})
            ok = ok and hit
    for a in NEXT_ACTIONS:
        hit = taken.get(a, 0) > 0
        out.append({"control": f"action-taken:{a}", "ok": hit, "distinct_states_found": taken.get(a, 0)})
        ok = ok and hit
    return ok


def run(tier, seed, replay):
    out = []
    with Scratch("controls") as tmp:
        ok = call_controls(tmp, out)
        ok = lemma_controls(tmp, out) and ok
        ok = models_controls(tmp, out) and ok
        ok = mp_controls(tmp, out) and ok
        ok = vacuity_controls(tmp, out) and ok
        ok = trace_controls(tmp, out) and ok
        ok = spec_controls(tmp, out) and ok
        ok = refine_controls(tmp, out) and ok
    (VERIF / "out").mkdir(exist_ok=True)
    (VERIF / "out" / "controls.json").write_text(json.dumps(out, indent=1))
    for c in out:
        print(("ok   " if c["ok"] else "FAIL ") + json.dumps(c)[:260])
    print(f"controls: {sum(1 for c in out if c['ok'])}/{len(out)} behave as expected")
    if not ok:
        raise Machinery("a negative control did not behave as expected")
    return 0
