"""One index-type-limit scenario per process (C19): argv = name size out.json.  Exit status is part of the observation.

The scenarios put a problem around what the 8/16-bit index types of Problem.init can represent (cumulated constraint
positions, cumulated parameters, number of constraints, number of domains, number of registered algorithms); each has
a known solution set on its first variables.  Acceptable: a refusal / an error, or exactly the right solutions."""
import json
import sys
import warnings

name, size, out = sys.argv[1], int(sys.argv[2]), sys.argv[3]
rec = {"name": name, "size": size, "outcome": "deadline", "count": 0, "expected": -1, "valid": True, "raised": ""}


def dump():
    with open(out, "w") as fh:
        json.dump(rec, fh)


dump()
warnings.simplefilter("ignore")
import nucs.propagators.propagators as pp
from nucs.problems.problem import Problem
from nucs.solvers.backtrack_solver import BacktrackSolver


def build():
    """-> problem, expected number of solutions, validity predicate on a solution"""
    if name == "unary":          # `size` constraints of one variable and one parameter each
        p = Problem([(0, 1), (0, 1)])
        for _ in range(size):
            p.add_propagator(([0], pp.ALG_EXACTLY_TRUE, [1]))
        return p, 2, lambda s: s[0] == 1
    if name == "unary_mixed":    # the same after one binary constraint (the wrap is not at a constraint boundary)
        p = Problem([(0, 1), (0, 1)])
        p.add_propagator(([0, 1], pp.ALG_AFFINE_LEQ, [1, 1, 1]))
        for _ in range(size):
            p.add_propagator(([0], pp.ALG_EXACTLY_TRUE, [1]))
        return p, 1, lambda s: s[0] == 1 and s[1] == 0
    if name in ("params2", "params3"):   # k tables of `size` parameters each
        k = int(name[-1])
        p = Problem([(0, 1), (0, 1)])
        tab = [0, 1, 1, 0] * (size // 4)
        for _ in range(k):
            p.add_propagator(([0, 1], pp.ALG_RELATION, tab))
        return p, 2, lambda s: s[0] != s[1]
    if name == "params_tail":    # one big table, then a constraint whose single parameter falls after the 16-bit limit
        p = Problem([(0, 1), (0, 1), (0, 1)])
        p.add_propagator(([0, 1], pp.ALG_RELATION, [0, 1, 1, 0] * (size // 4)))
        p.add_propagator(([2], pp.ALG_EXACTLY_TRUE, [1]))
        return p, 2, lambda s: s[0] != s[1] and s[2] == 1
    if name in ("positions2", "positions1"):   # k linear constraints of `size` positions each
        k = int(name[-1])
        p = Problem([(0, 1), (0, 1)])
        for _ in range(k):
            p.add_propagator(([0, 1] * (size // 2), pp.ALG_AFFINE_LEQ, [1, 1] + [0] * (size - 2) + [1]))
        return p, 3, lambda s: s[0] + s[1] <= 1
    if name == "domains":        # `size` domains, all instantiated but the last two
        p = Problem([(0, 0)] * (size - 2) + [(0, 1), (0, 1)])
        p.add_propagator(([size - 2, size - 1], pp.ALG_ALLDIFFERENT, []))
        return p, 2, lambda s: s[size - 2] != s[size - 1]
    if name == "views":          # `size` variables that are views of two domains (few domains, many variables)
        p = Problem([(0, 1), (0, 1)], [0, 1] * (size // 2), [0] * size)
        p.add_propagator(([size - 2, size - 1], pp.ALG_ALLDIFFERENT, []))
        return p, 2, lambda s: s[size - 2] != s[size - 1] and s[0] == s[size - 2]
    if name == "algorithms":     # `size` registered algorithms, the constraint uses the last one
        from nucs.propagators.affine_leq_propagator import compute_domains_affine_leq, get_complexity_affine_leq, get_triggers_affine_leq
        alg = -1
        while len(pp.COMPUTE_DOMAINS_FCTS) < size:
            alg = pp.register_propagator(get_triggers_affine_leq, get_complexity_affine_leq, compute_domains_affine_leq)
        p = Problem([(0, 1), (0, 1)])
        p.add_propagator(([0, 1], alg, [1, 1, 1]))
        return p, 3, lambda s: s[0] + s[1] <= 1
    raise ValueError(name)


try:
    problem, expected, valid = build()
    rec["expected"] = expected
    solver = BacktrackSolver(problem, log_level="ERROR")
except Exception as e:  # noqa
    rec["outcome"] = "refused"
    rec["raised"] = type(e).__name__
    dump()
    sys.exit(0)
try:
    for x in solver.solve():
        rec["count"] += 1
        if not valid([int(v) for v in x]):
            rec["valid"] = False
        if rec["count"] > 64:
            break
    rec["outcome"] = "ok"
except Exception as e:  # noqa
    rec["outcome"] = "raised"
    rec["raised"] = type(e).__name__
dump()
