"""Worker: execute real compute_domains_* calls and record them (one JSON record per call).

argv: job.json out.ndjson.  job = {families:[names], offset, stride, rate:{name:p}, seed, random:N, idbase}
Status codes beyond NuCS's 0/1/2:  -9 call did not return (confirmed by a line-count cap),
-8 IndexError raised, -7 any other exception.
"""
import json
import random
import signal
import sys
import zlib

import numpy as np

import scope
import nucs.propagators.propagators as pp

ALG = {k[4:].lower(): getattr(pp, k) for k in dir(pp) if k.startswith("ALG_")}
LINE_CAP = 2_000_000


class _Timeout(Exception):
    pass


def _alarm(*a):
    raise _Timeout()


class _Cap(Exception):
    pass


def run_capped(fn, dom, params):
    """Deterministic confirmation of a hang: execute under a line-count cap."""
    count = [0]

    def tracer(frame, event, arg):
        if event == "line":
            count[0] += 1
            if count[0] > LINE_CAP:
                raise _Cap()
        return tracer

    sys.settrace(tracer)
    try:
        st = fn(dom, params)
        return int(st), count[0]
    except _Cap:
        return -9, count[0]
    finally:
        sys.settrace(None)


def call(alg, params, box, interp):
    fn = pp.COMPUTE_DOMAINS_FCTS[ALG[alg]]
    p = np.array(params, dtype=np.int32)
    dom = np.array(box, dtype=np.int32).reshape((-1, 2))
    rec = {"alg": alg, "params": list(map(int, params)), "inbox": [list(map(int, b)) for b in box]}
    try:
        if interp:
            signal.setitimer(signal.ITIMER_REAL, 3.0)
        try:
            st = int(fn(dom, p))
        finally:
            if interp:
                signal.setitimer(signal.ITIMER_REAL, 0)
    except _Timeout:
        dom = np.array(box, dtype=np.int32).reshape((-1, 2))
        st, lines = run_capped(fn, dom, p)
        rec["lines"] = lines
    except IndexError as e:
        st = -8
        rec["exc"] = repr(e)[:120]
    except Exception as e:  # noqa
        st = -7
        rec["exc"] = repr(e)[:120]
    rec["status"] = st
    rec["outbox"] = dom.tolist()
    rec["status2"] = -1
    rec["outbox2"] = []
    if st in (1, 2):
        dom2 = dom.copy()
        try:
            if interp:
                signal.setitimer(signal.ITIMER_REAL, 3.0)
            try:
                st2 = int(fn(dom2, p))
            finally:
                if interp:
                    signal.setitimer(signal.ITIMER_REAL, 0)
        except _Timeout:
            st2 = -9
        except IndexError:
            st2 = -8
        except Exception:  # noqa
            st2 = -7
        rec["status2"] = st2
        rec["outbox2"] = dom2.tolist()
    return rec


def main():
    job = json.load(open(sys.argv[1]))
    import os

    interp = bool(os.environ.get("NUMBA_DISABLE_JIT"))
    if interp:
        signal.signal(signal.SIGALRM, _alarm)
    rid = job.get("idbase", 0)
    off, stride = job.get("offset", 0), job.get("stride", 1)
    with open(sys.argv[2], "w") as out:
        for name in job.get("families", []):
            rate = job.get("rate", {}).get(name, 1.0)
            rnd = random.Random(job.get("seed", 1) * 1000003 + zlib.crc32(name.encode()))
            k = -1
            for idx, (alg, params, box) in enumerate(scope.family(name)):
                if rate < 1.0 and rnd.random() >= rate:
                    continue
                k += 1
                if k % stride != off:
                    continue
                rec = call(alg, params, box, interp)
                rid += 1
                rec["id"] = rid
                rec["fam"] = name
                out.write(json.dumps(rec, separators=(",", ":")) + "\n")
        n = job.get("random", 0)
        if n:
            rnd = random.Random(job.get("seed", 1) * 7919 + off)
            for _ in range(n):
                alg, params, box = scope.random_case(rnd)
                rec = call(alg, params, box, interp)
                rid += 1
                rec["id"] = rid
                rec["fam"] = "random"
                out.write(json.dumps(rec, separators=(",", ":")) + "\n")
        nb = job.get("big", 0)
        if nb:
            rnd = random.Random(job.get("seed", 1) * 104729 + off)
            for _ in range(nb):
                alg, params, box = scope.big_case(rnd)
                rec = call(alg, params, box, interp)
                rid += 1
                rec["id"] = rid
                rec["fam"] = "big"
                out.write(json.dumps(rec, separators=(",", ":")) + "\n")
        for alg, params, box in job.get("cases", []):
            rec = call(alg, params, box, interp)
            rid += 1
            rec["id"] = rid
            rec["fam"] = "listed"
            out.write(json.dumps(rec, separators=(",", ":")) + "\n")


if __name__ == "__main__":
    main()
