"""Worker for C13/C20-style runs: solve a list of (problem, configuration, mode) with the real solver.
argv: job.json out.ndjson ; job = {"items":[{"rid","runs":[{"P","cfg","mode","var","cap"}...]}]}
Each run -> {"ok": "ok"|"skip"|"raised:..", "sols": [...], "opt": [none(0/1), value], "stats": [...]}"""
import json
import signal
import sys
import time

import problems
from nucs.solvers.backtrack_solver import BacktrackSolver


class _TO(Exception):
    pass


def _alarm(*a):
    raise _TO()


def poison(value):
    """Fill the small blocks numpy keeps for reuse with `value`: whatever the library allocates next without
    initialising it (np.empty) then holds `value` - so that two runs that must agree (C15) differ exactly when a result
    depends on uninitialised memory."""
    import numpy as np
    keep = [np.full(k, value, dtype=np.uint8) for k in range(1, 1025, 3) for _ in range(8)]
    del keep


def run_one(run, timeout):
    P, cfg = run["P"], run.get("cfg", {})
    kw = {}
    if cfg.get("decision") is not None:
        kw["decision_domains"] = cfg["decision"]
    if cfg.get("vparams"):
        kw["var_heuristic_params"] = cfg["vparams"]
    if cfg.get("dparams"):
        kw["dom_heuristic_params"] = cfg["dparams"]
    out = {"ok": "ok", "sols": [], "opt": [1, 0], "stats": []}
    signal.setitimer(signal.ITIMER_REAL, timeout)
    try:
        if run.get("poison") is not None:
            poison(run["poison"])
        prob = problems.to_nucs_incremental(P) if run.get("build") == "incremental" else problems.to_nucs(P)
        s = BacktrackSolver(prob, consistency_alg_idx=cfg.get("ca", 0), var_heuristic_idx=cfg.get("vh", 0),
                            dom_heuristic_idx=cfg.get("dh", 0), stack_max_height=cfg.get("height", 128), log_level="ERROR", **kw)
        if run.get("mode", "solve") == "solve":
            cap = run.get("cap", 6000)
            nv = len(P["vidx"])
            for x in s.solve():
                out["sols"].append([int(v) for v in x][:nv])
                if len(out["sols"]) > cap:
                    out["ok"] = "skip"
                    break
        else:
            r = s.minimize(run["var"]) if run["mode"] == "min" else s.maximize(run["var"])
            if r is not None:
                out["opt"] = [0, int(r[run["var"]])]
                out["sols"] = [[int(v) for v in r][:len(P["vidx"])]]
        out["stats"] = problems.user_stats(s)
    except _TO:
        out["ok"] = "skip"
        out["sols"] = []
    except Exception as e:  # noqa
        out["ok"] = "raised:" + type(e).__name__
    finally:
        signal.setitimer(signal.ITIMER_REAL, 0)
    return out


def main():
    job = json.load(open(sys.argv[1]))
    signal.signal(signal.SIGALRM, _alarm)
    timeout = job.get("timeout", 60.0)
    with open(sys.argv[2], "w") as fh:
        for it in job["items"]:
            t0 = time.time()
            res = [run_one(dict(r, poison=job["poison"]) if job.get("poison") is not None else r, timeout) for r in it["runs"]]
            fh.write(json.dumps({"rid": it["rid"], "res": res, "wall": round(time.time() - t0, 2)}, separators=(",", ":")) + "\n")
            fh.flush()


if __name__ == "__main__":
    main()
