"""Entry point: ./check <Cnn> [--tier quick|thorough] [--replay PATH]

Exit 0: property held on everything explored (known findings are printed, not failed).
Exit 1: VIOLATION property=<id> replay=<path>.
Exit 2: the machinery failed (never a verdict on the code).
"""
import argparse
import importlib
import os
import sys
import traceback

sys.path.insert(0, os.path.dirname(os.path.abspath(__file__)))

from common import Machinery, seed  # noqa: E402

CHECKS = {
    "C05": ("p_calls", "c05"),
    "C06": ("p_calls", "c06"),
    "C07": ("p_engine", "c07"),
    "C14": ("p_calls", "c14"),
    "C01": ("p_engine", "c01"),
    "C02": ("p_engine", "c02"),
    "C03": ("p_engine", "c03"),
    "C04": ("p_engine", "c04"),
    "C08": ("p_engine", "c08"),
    "C09": ("p_engine", "c09"),
    "C10": ("p_engine", "c10"),
    "C17": ("p_engine", "c17"),
    "C11": ("p_mp", "c11"),
    "C18": ("p_mp", "c18"),
    "C12": ("p_split", "c12"),
    "C13": ("p_rewrites", "c13"),
    "C15": ("p_history", "c15"),
    "C19": ("p_capacity", "c19"),
    "C16": ("p_bounds", "c16"),
    "C20": ("p_models", "c20"),
    "controls": ("controls", "run"),
}


def main():
    ap = argparse.ArgumentParser()
    ap.add_argument("prop")
    ap.add_argument("--tier", default=os.environ.get("VERIF_TIER", "quick"), choices=["quick", "thorough"])
    ap.add_argument("--replay", default=None)
    a = ap.parse_args()
    if a.prop not in CHECKS:
        print(f"unknown property {a.prop}; known: {sorted(CHECKS)}")
        return 2
    mod, fn = CHECKS[a.prop]
    try:
        m = importlib.import_module(mod)
        if a.replay and mod not in ("p_engine", "p_calls"):
            # these checks are deterministic functions of (tier, seed): replaying = re-running with the recorded ones
            import json
            rec = json.load(open(a.replay))
            os.environ["VERIF_SEED"] = str(rec.get("seed", 1))
            print(f"replay of {a.replay}: re-running {a.prop} at tier={rec.get('tier', 'quick')} seed={rec.get('seed', 1)}")
            return getattr(m, fn)(rec.get("tier", "quick"), int(rec.get("seed", 1)), None)
        return getattr(m, fn)(a.tier, seed(), a.replay)
    except Machinery as e:
        print(f"MACHINERY-FAILURE {a.prop}: {e}")
        return 2
    except Exception:
        traceback.print_exc()
        print(f"MACHINERY-FAILURE {a.prop}: unexpected exception")
        return 2


if __name__ == "__main__":
    sys.exit(main())
