#!/bin/sh
# Offline setup: nothing is installed. Syntax-check every specification module.
cd "$(dirname "$0")/spec" || exit 2
rc=0
for f in *.tla; do
  java -cp /opt/veriftools/tla/tla2tools.jar:/opt/veriftools/tla/CommunityModules-deps.jar tla2sany.SANY "$f" > /tmp/sany.$$ 2>&1 || { cat /tmp/sany.$$; rc=2; }
  grep -q "Parsing or semantic analysis failed\|\*\*\* Errors" /tmp/sany.$$ && { cat /tmp/sany.$$; rc=2; }
done
rm -f /tmp/sany.$$
mkdir -p ../.cache/tmp ../evidence ../out
echo "setup done rc=$rc"
exit $rc
