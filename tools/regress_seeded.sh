#!/bin/sh
# tools/regress_seeded.sh [tag ...] : re-run every kept seeded change against the checks recorded as catching it
# (seeded/<tag>/meta.json caught_by_checks); prints one line per change: CAUGHT / MISSED / OBSOLETE / NOAPPLY.
cd /verif
tags="$*"
[ -z "$tags" ] && tags=$(ls seeded | grep -v benign)
for t in $tags; do
  checks=$(python3 -c "import json;m=json.load(open('seeded/$t/meta.json'));print('obsolete' if m.get('obsolete_after') else ' '.join(m.get('caught_by_checks',[])))")
  case "$checks" in ""|*obsolete*) echo "$t OBSOLETE"; continue;; esac
  first=$(echo $checks | cut -d' ' -f1)
  out=$(tools/mutant.sh seeded/$t/patch.diff $first 2>&1 | grep -v WARNING)
  if echo "$out" | grep -q "patch does not apply"; then echo "$t NOAPPLY"
  elif echo "$out" | grep -q "rc=1 .*VIOLATION property=$first"; then echo "$t CAUGHT by $first"
  else echo "$t MISSED by $first: $(echo "$out" | grep '^==' | cut -c1-120)"; fi
done
