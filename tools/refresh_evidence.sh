#!/bin/sh
# run every quick check on the clean tree (evidence files are rewritten by the checks themselves)
cd /verif
for c in C01 C02 C03 C04 C05 C06 C07 C08 C09 C10 C11 C12 C13 C14 C15 C16 C17 C18 C19 C20; do
  ./check $c --tier quick 2>&1 | grep -v WARNING | tail -1
done
