#!/usr/bin/env python3
"""Regenerate /verif/MANIFEST.json from the table below (one place to keep the interface in sync)."""
import json
import os

ROOT = os.path.dirname(os.path.dirname(os.path.abspath(__file__)))
ALL = [f"C{n:02d}" for n in range(1, 21)]

TRUST_CALLS = ("Trusted: TLC, spec/Constraints.tla (relations, contracts, brute-force supports), the recorder "
               "harness/rec_calls.py. Scope = harness/scope.py families + seeded random; 32-bit overflow inside "
               "propagators out of scope.")
TRUST_ENGINE = ("Trusted: TLC, spec/Constraints.tla + spec/NucsAbs.tla, the recorder harness/rec_engine.py (registry "
                "interposition in interpreted mode, no source hooks). Scope = seeded random in-contract problems with "
                "a brute-force oracle (root box <= 700 points) x all shipped configurations; the compiled mode is tied "
                "to the interpreted one by C15.")
TECH_CALLS = ("TLA+ trace validation: every recorded compute_domains call is one state of spec/CallTrace.tla judged by "
              "Constraints!CallVerdicts (TLC)")
TECH_ENGINE = ("TLA+ trace validation: event traces of the real engine replayed through the actions of spec/NucsAbs.tla "
               "by TLC (spec/AbsTrace.tla), every named clause evaluated at every event; the design (spec/NucsMech.tla) is "
               "model-checked exhaustively on problem families and shown to refine NucsAbs (spec/MechRefines.tla: every "
               "clause of Layer A holds on every step of the mechanism)")

CHECKS = {
    "C01": ("model_checking", "Every yield / optimisation result of the real engine is a step of the TLA+ specification "
            "whose clauses demand: ground, inside the declared domains, offsets respected, every posted relation "
            "(Constraints!Sat) satisfied. Also: one constraint alone in a solver on the boxes of the call scope, engine "
            "traces of the shipped models (incl. the Golomb custom consistency algorithm), and every vector delivered by "
            "the multiprocessing solver on real splits (spec/SolTrace.tla).", TRUST_ENGINE, TECH_ENGINE),
    "C02": ("model_checking", "Enumeration traces are replayed through NucsAbs: each yield must be fresh, the set yielded "
            "at the end must equal the brute-force solution set computed by TLC, for every configuration and posting "
            "order sampled. The public entry points are compared on the same problems (spec/ApiTrace.tla): the "
            "iterator, its arrays kept by reference until the end, find_all(), solve_all(callback) and the "
            "multiprocessing solver's find_all(). A sample of the corpus is also run by the COMPILED engine and must "
            "deliver exactly what the validated interpreted run delivered (spec/CompiledTrace.tla).", TRUST_ENGINE, TECH_ENGINE),
    "C03": ("model_checking", "Optimisation traces (restart loop: incumbent, reset, tighten) replayed through NucsAbs: "
            "incumbents improve strictly, tightening keeps every better solution, the result is feasible and equals "
            "the brute-force optimum, None iff infeasible. Distributed optimisation: real splits and synthetic reducer "
            "scenarios, every arrival order replayed through the real parent loop and judged by MPTrace.tla.",
            TRUST_ENGINE, TECH_ENGINE + "; MPSolver/MPTrace for the distributed case"),
    "C04": ("model_checking", "Every pass of every trace is bounded by PassBound (count of constraint executions, "
            "observed by interposition; a pass reaching 4x the bound is truncated and rejected), hangs are confirmed by "
            "a deterministic line-count cap, exceptions and 'nothing to branch on' have no counterpart in the "
            "specification. The call corpus is also executed under a watchdog (a loop inside one propagator call never "
            "returns to the engine). A shaving call is bounded by ShaveBound, a whole call (enumeration, optimisation) by RunBound: a "
            "trace the recorder has to cut beyond that bound is rejected (C04:shaving-call-exceeds-its-bound, "
            "C04:search-exceeds-its-bound); every decision-domain order x shaving on a systematic family.", TRUST_ENGINE, TECH_ENGINE),
    "C05": ("model_checking", "Every real filtering call of the exhaustive small-scope families (all boxes, all parameter "
            "vectors in scope) and of a seeded random corpus is replayed as one step of the TLA+ trace spec; TLC "
            "evaluates soundness (output inside input, every brute-force support kept, failure only without support).",
            TRUST_CALLS, TECH_CALLS),
    "C06": ("model_checking", "Same corpus; TLC evaluates ground decisiveness: on point boxes failure iff the relation is "
            "violated, and any call collapsing a box to a point leaves a satisfying tuple (circuit constraints judged "
            "on permutations).", TRUST_CALLS, TECH_CALLS),
    "C07": ("model_checking", "Call half: an 'entailed' answer implies every tuple of the returned box satisfies the "
            "relation. Engine half: on engine traces a constraint disabled by a pass or carried disabled into a pushed "
            "level is entailed on that level's box (judged on shared domains), and backtracking restores exactly the "
            "saved flags.", TRUST_CALLS + " " + TRUST_ENGINE, TECH_CALLS + "; " + TECH_ENGINE),
    "C08": ("model_checking", "Every pass of every trace: domains only shrink, every brute-force solution is kept, each "
            "enabled constraint re-executed alone through the real routine neither fails nor prunes, and for exact "
            "propagators the result equals the greatest common fixpoint computed by the specification. spec/Triggers.tla "
            "checks, for the masks recorded from the real get_triggers_* functions, that no unwatched bound change can "
            "make a constraint fail or prune (trigger sufficiency; for the circuit constraints: fail, on the explicit "
            "definition of their algorithm); spec/MechTrace.tla replays strict mechanism-level "
            "traces through NucsMech's operators (drift only).", TRUST_ENGINE,
            TECH_ENGINE + "; TLC lemma on recorded trigger masks (Triggers.tla)"),
    "C09": ("model_checking", "Every branching decision and every backtrack of every trace is a Branch/Resume step of "
            "NucsAbs: non-empty, disjoint, covering ranges, other domains untouched, moved bounds announced for the "
            "branch taken and recorded for each alternative, frames restored exactly, failure only at the root. Includes "
            "problems with more than 256 shared domains (the recorded domain of an alternative needs more than 8 bits).",
            TRUST_ENGINE, TECH_ENGINE),
    "C10": ("model_checking", "Every shaving pass (with its nested probes, passes and backtracks consumed one by one) is "
            "validated: inside plain bound consistency (real routine on a copy) and inside the specification's greatest "
            "fixpoint, keeps every solution, stack height unchanged, unrefuted probes restored exactly.", TRUST_ENGINE,
            TECH_ENGINE),
    "C11": ("model_checking", "spec/MPSolver.tla explores every interleaving of the workers' puts and the parent's gets "
            "(scenarios = streams produced by the real worker methods on real splits): bag equality, best-of, None-iff, "
            "returns only after all workers, final statistics per worker, termination. Every arrival order TLC "
            "enumerates is replayed through the real parent loop and each run is judged by TLC (MPTrace.tla) against "
            "the specification's parent and the sequential solver; real-process runs are validated the same way. A third of "
            "the scenarios hand over sub-solvers that were used sequentially before (drained, stepped once, optimised).",
            "Trusted: TLC, spec/MPParent.tla + MPSolver.tla + MPTrace.tla, harness/mp_worker.py (fake Queue/Process "
            "installed from outside). Scope: <= 4 workers, <= 11 messages per scenario for the exhaustive orders.",
            "TLA+ model checking of all interleavings (MPSolver.tla) + replay of every TLC-enumerated arrival order "
            "through the real parent loop + TLA+ trace validation of each run (MPTrace.tla)"),
    "C12": ("model_checking", "spec/Split.tla states the ranges of a split and TLC proves the partition lemma for every "
            "[a,b] in -3..4 and k in 1..11; every recorded call of the real split (all those domains x k up to size+3 x "
            "three variable layouts, plus random problems) is judged by TLC: original unchanged, parts identical "
            "elsewhere, ranges = the specification's, parts pairwise disjoint, union = brute-force solution set. The problem "
            "object is fresh, initialised, solved before, or held by an abandoned solver when it is split.",
            "Trusted: TLC, spec/Split.tla + NucsAbs!Solutions, harness/rec_split.py; the parts are enumerated by the "
            "real BacktrackSolver in its default configuration under a watchdog.",
            "TLC lemma on spec/Split.tla + TLA+ trace validation of recorded split calls (SplitTrace.tla)"),
    "C13": ("model_checking", "spec/Rewrites.tla defines the meaning-preserving rewrites (unshare, permute constraints, permute "
            "variables, duplicate, add an always-true constraint, translate) and TLC applies them to random problems and "
            "to the shipped models built by their real constructors, proving the preservation lemma by brute force on "
            "the small ones; the real (compiled) solver runs both models; TLC judges bag equality up to renaming and "
            "equal optimum.",
            "Trusted: TLC, spec/Rewrites.tla (+NucsAbs, Constraints), the real solver runs in harness/rec_rewrites.py; "
            "runs beyond the watchdog or 6000 solutions are skipped.",
            "TLC-computed model rewrites (spec/Rewrites.tla, lemma by brute force) + TLA+ judgement of the real "
            "solver's results on both models"),
    "C14": ("model_checking", "Same corpus; TLC compares each output with the brute-force hull of the supports, checks "
            "failure exactly without support, idempotence of a second call, and affine_eq against the one-round "
            "interval operator AffineEqRound.", TRUST_CALLS, TECH_CALLS),
    "C15": ("model_checking", "spec/ProcessHistory.tla models one interpreter process over time (problem objects created and "
            "re-used, split after use - the part becomes a problem object of its own -, solvers constructed / stepped / drained / abandoned, custom registrations in between); TLC "
            "enumerates every history up to a bound, each is executed in one interpreter in interpreted and in compiled "
            "mode, and TLC compares every step with the reference run made in a fresh interpreter (solutions, final "
            "statistics, meaning of the problem object, the caller's own configuration objects - handed unchanged from "
            "one solver to the next). Random instances are run twice per mode, each run starting from a differently "
            "poisoned allocator cache (a result that depends on uninitialised memory differs deterministically), and "
            "compared by spec/ModeTrace.tla.",
            "Trusted: TLC, spec/ProcessHistory.tla + ModeTrace.tla, harness/rec_history.py; four problem templates (two "
            "of them siblings: same algorithms, arities and domains, other parameters) x "
            "four configurations for the histories (the fourth: a custom heuristic registered after a same-named "
            "sibling, judged against the built-in it clones); numba cache keyed by the source hash.",
            "TLC-enumerated operation histories replayed into the real library (both execution modes) + TLA+ "
            "judgement of every step against fresh-interpreter reference runs"),
    "C16": ("exploration", "Monitoring level: the specification delimits the in-contract input space (Constraints!InContract, "
            "NucsAbs!WellFormed, re-evaluated by TLC on every record) and has no step for an IndexError; the call corpus "
            "(small-scope families, random calls, large-arity calls up to 40 variables) and the engine corpus are "
            "executed interpreted (NumPy checks every index) and under a NUMBA_BOUNDSCHECK=1 build of the compiled code; "
            "any execution in which the runtime's bounds checks fire is rejected.",
            "Trusted: NumPy's and Numba's bounds checks as the detector; TLC + Constraints.tla/NucsAbs.tla as the judge of "
            "in-contractness. An out-of-bounds access on an input the corpus never reaches is not detected; the interior "
            "of the Hall-interval algorithms is not modelled.",
            "TLA+ trace validation in which an IndexError event has no specification counterpart (interpreted runs and a "
            "bounds-check build of the compiled code), over TLC-checked in-contract corpora"),
    "C17": ("model_checking", "NucsAbs carries the observed event counts in the layout of the statistics array; at every "
            "pass end, yield, return and at the end the 13 reported counters must equal them; conservation laws are "
            "clauses of Done. Multiprocessing totals: real worker streams, TLC-enumerated arrival orders, the real parent "
            "loop, sums / max judged by MPTrace.tla. A further call on a used solver object: its counters go on from the earlier "
            "totals or all restart from zero, never a mixture.", TRUST_ENGINE, TECH_ENGINE),
    "C18": ("fault_enumeration", "Design: MPSolver.tla with Crash(w) - under weak fairness the parent always returns or "
            "raises (and the blocking-read design is shown to hang, as a negative control). Code: real processes, every "
            "worker x death point (before the first message, between messages, before the completion marker) x "
            "enumeration/optimisation; the call must return or raise within the deadline.",
            "Trusted: the fork start method, deadlines of 25 s; crash points are message boundaries; ways of dying: "
            "os._exit(3), os._exit(0), SIGKILL, an exception escaping the worker, sys.exit(0).", "TLC liveness check of MPSolver.tla with crashes + fault injection on the real "
            "MultiprocessingSolver (fork-inherited queue wrapper, no source hook)"),
    "C19": ("model_checking", "spec/NucsMech.tla with stacks of 1..4 levels: the search never stands above the configured "
            "height, the capacity error is raised only when the stack is really full, and whatever is enumerated is "
            "complete and duplicate-free. On the code: engine traces with stacks of 1..5 levels replayed through "
            "NucsAbs (nothing may follow a push above the height except the error), and a sweep of stack heights "
            "(1..6, 127, 128, 253..257, 300, 512, 1000) x search depths around the height x value heuristics x both "
            "execution modes, one process per scenario, judged by spec/Capacity.tla (right solutions, right depth "
            "counter, normal exit). Index-type limits: problems just below, at and above what the 8/16-bit arrays of "
            "Problem.init can represent (cumulated constraint positions and parameters, numbers of constraints, domains, "
            "views, registered algorithms), each with a known solution set, both modes, one process each, judged by "
            "Capacity.tla: a refusal or exactly the right solutions.",
            "Trusted: TLC, spec/NucsMech.tla, NucsAbs.tla, Capacity.tla; the stack sweep uses unconstrained problems "
            "(n free variables); the limit scenarios are a fixed list (harness/p_capacity.py limit_scenarios).",
            "TLC model checking of NucsMech with small stacks + TLA+ trace validation of engine traces with tiny "
            "stacks + a process-level capacity sweep judged by spec/Capacity.tla"),
    "C20": ("model_checking", "spec/Models.tla holds definition-level predicates of the sixteen shipped combinatorial objects "
            "(written from the problem statements, not from the models' constraints) and the counts / optima known from "
            "the literature; every object produced by the real models (real constructors, symmetry breaking on/off, "
            "bound consistency / shaving, several heuristics, 1..3 processes, the Golomb custom consistency algorithm) is "
            "validated by TLC, counts and optima are compared with the literature or TLC's own brute force (incl. BIBD "
            "parameter sets for which no design exists), and the runs of one instance are compared with each other. Engine traces of the models at small sizes, incl. the Golomb custom "
            "consistency algorithm (which filters by itself before calling bound consistency), are replayed through NucsAbs.",
            "Trusted: TLC, spec/Models.tla (validators and literature constants), harness/rec_models.py; sizes within "
            "reach of the watchdog.",
            "TLA+ judgement (spec/Models.tla) of every object the real models produce + literature counts/optima"),
}

PENDING = "check under construction in this session (see DESIGN.md section 6 for the plan); not claimed until its machinery is committed"


def main():
    checks = []
    for pid in ALL:
        if pid not in CHECKS:
            continue
        cat, text, note, tech = CHECKS[pid]
        checks.append({
            "property_id": pid,
            "quick_cmd": f"./check {pid} --tier quick",
            "thorough_cmd": f"./check {pid} --tier thorough",
            "evidence_file": f"/verif/evidence/{pid}.json",
            "replay_cmd_template": f"./check {pid} --replay {{path}}",
            "engine": "tlc",
            "level_claimed": {"category": cat, "text": text, "design_ref": "DESIGN.md section 6"},
            "level_note": note,
            "technique": tech,
        })
    man = {
        "version": 1,
        "setup_cmd": "./setup.sh",
        "hooks": {
            "guard": "NUCS_VERIF",
            "enable": "no source hooks: observation is done from outside by registry interposition "
                      "(NUMBA_DISABLE_JIT=1) and by driving compiled routines; NUCS_VERIF=1 is exported by the harness",
            "baseline_off_cmd": "cd /repo && /venv/bin/python -m pytest -ra -q -p no:cacheprovider --timeout=900 "
                                "--continue-on-collection-errors",
            "source_commits": [],
            "add_only": True,
        },
        "engines": [{
            "name": "tlc", "path": "/usr/local/bin/tlc", "serves_properties": sorted(CHECKS),
            "kind_free_text": "TLC 1.8 explicit-state model checker: exhaustive checking of spec/*.tla and trace "
                              "validation of recorded executions of the real code against them",
        }],
        "checks": checks,
        "not_applicable": [{"property_id": p, "reason": PENDING} for p in ALL if p not in CHECKS],
        "notes": "See DESIGN.md. Known findings: known_findings.jsonl.",
    }
    with open(os.path.join(ROOT, "MANIFEST.json"), "w") as fh:
        json.dump(man, fh, indent=1)
        fh.write("\n")
    print("MANIFEST.json:", len(checks), "checks,", len(man["not_applicable"]), "not claimed")


if __name__ == "__main__":
    main()
