#!/bin/sh
# tools/mutant.sh <patch.diff> <Cxx> [Cyy ...] : apply a seeded change to /repo, run the quick checks, restore /repo
P="$1"; shift
cd /repo || exit 2
git diff --quiet || { echo "/repo is dirty"; exit 2; }
git apply "$P" || { echo "patch does not apply"; exit 2; }
trap 'git -C /repo checkout -- . ; echo "[/repo restored]"' EXIT INT TERM
cd /verif
for c in "$@"; do
  /usr/bin/time -f "  ($c %es)" ./check "$c" --tier quick > /tmp/mutant_$c.log 2>&1
  rc=$?
  echo "== $c rc=$rc $(grep -c '^  failing' /tmp/mutant_$c.log) failing lines; $(grep 'VIOLATION\|MACHINERY\|KNOWN' /tmp/mutant_$c.log | head -3)"
  grep '^  failing' /tmp/mutant_$c.log | sed 's/case=.*//' | cut -c1-220 | sort | uniq -c | sort -rn | head -4
done
