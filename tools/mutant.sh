#!/bin/sh
# tools/mutant.sh <patch.diff> <Cxx> [Cyy ...] : run the quick checks against a scratch worktree of /repo with the
# seeded change applied (VERIF_REPO points the whole harness at it); /repo itself is not touched.
P="$(realpath "$1")"; shift
W=/tmp/mutrepo.$$
O=/tmp/mutout.$$   # evidence and replay files of these runs: not /verif/evidence, not /verif/out
git -C /repo worktree add -f --detach "$W" HEAD >/dev/null 2>&1 || exit 2
trap 'git -C /repo worktree remove --force "$W"; rm -rf "$O"; echo "[scratch worktree removed]"' EXIT INT TERM
git -C "$W" apply "$P" || { echo "patch does not apply"; exit 2; }
cd /verif
for c in "$@"; do
  VERIF_REPO="$W" VERIF_OUT="$O" /usr/bin/time -f "  ($c %es)" ./check "$c" --tier quick > /tmp/mutant_$c.$$.log 2>&1
  rc=$?
  echo "== $c rc=$rc $(grep -c '^  failing' /tmp/mutant_$c.$$.log) failing lines; $(grep 'VIOLATION\|MACHINERY\|KNOWN' /tmp/mutant_$c.$$.log | head -3)"
  grep '^  failing' /tmp/mutant_$c.$$.log | sed 's/case=.*//' | cut -c1-220 | sort | uniq -c | sort -rn | head -4
  rm -f /tmp/mutant_$c.$$.log
done
