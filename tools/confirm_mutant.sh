#!/bin/sh
# tools/confirm_mutant.sh <worktree> <outdir> : confirm a seeded change (suite passes with it; demo fails with it, passes without)
# (no git stash: refs/stash is shared by all worktrees of a repository)
W="$1"; O="$2"
cd "$W" || exit 2
git diff > "$O/.confirm_patch.diff"
rm -rf .nbcache
PYTHONPATH=$W NUMBA_CACHE_DIR=$W/.nbcache /venv/bin/python -m pytest -q -p no:cacheprovider --timeout=900 tests > $O/confirm_tests.log 2>&1
echo "tests_with_change: $(tail -1 $O/confirm_tests.log)"
PYTHONPATH=$W NUMBA_DISABLE_JIT=1 /venv/bin/python $O/demo.py > $O/confirm_demo_with.log 2>&1; echo "demo_with_change rc=$?"
git checkout -q -- nucs
PYTHONPATH=$W NUMBA_DISABLE_JIT=1 /venv/bin/python $O/demo.py > $O/confirm_demo_without.log 2>&1; echo "demo_without_change rc=$?"
git apply "$O/.confirm_patch.diff"
rm -rf .nbcache
