#!/usr/bin/env python3
"""tools/keep_mutant.py <tag> <caught_by comma list> [note] : copy a confirmed seeded change into /verif/seeded/<tag>/"""
import json, os, shutil, sys
tag, caught = sys.argv[1], sys.argv[2].split(",")
note = sys.argv[3] if len(sys.argv) > 3 else ""
src, dst = f"/tmp/mut/out/{tag}", f"/verif/seeded/{tag}"
os.makedirs(dst, exist_ok=True)
for f in ("patch.diff", "demo.py"):
    shutil.copy(os.path.join(src, f), os.path.join(dst, f))
meta = json.load(open(os.path.join(src, "meta.json")))
conf = open(os.path.join(src, "confirm.txt")).read() if os.path.exists(os.path.join(src, "confirm.txt")) else ""
meta["confirmed_by_me"] = [l for l in conf.splitlines() if l and "WARNING" not in l]
meta["caught_by_checks"] = caught
meta["how_checked"] = f"tools/mutant.sh seeded/{tag}/patch.diff " + " ".join(caught) + "  (git apply on /repo, quick checks, git checkout)"
if note:
    meta["note"] = note
json.dump(meta, open(os.path.join(dst, "meta.json"), "w"), indent=1)
print("kept", dst)
