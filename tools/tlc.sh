#!/bin/sh
# tools/tlc.sh <module> <cfg> [workers] -- run TLC from spec/ with a private metadir (env passes IOEnv values)
cd "$(dirname "$0")/../spec" || exit 2
M=$(mktemp -d /tmp/tlcmeta.XXXXXX)
java -XX:+UseParallelGC -Xss16m -cp /opt/veriftools/tla/tla2tools.jar:/opt/veriftools/tla/CommunityModules-deps.jar tlc2.TLC -workers "${3:-16}" -metadir "$M" -noGenerateSpecTE -config "$2" "$1.tla" 2>&1 | grep -v '^Parsing\|^Semantic\|^Linting\|^Computed'
rm -rf "$M"
