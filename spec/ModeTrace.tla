------------------------------ MODULE ModeTrace ------------------------------
(***************************************************************************)
(* C15, input quantifier: the same (problem, configuration, mode) run      *)
(* twice interpreted and twice compiled, each in a fresh interpreter; all  *)
(* four runs must deliver the same sequence of solutions (or optimum) and  *)
(* the same statistics.   r.runs = << [ok, sols, opt, stats] x 4 >>        *)
(*   runs 1,2 interpreted; runs 3,4 compiled                               *)
(***************************************************************************)
EXTENDS Integers, Sequences, TLC, Json, IOUtils
Runs == ndJsonDeserialize(IOEnv.MODE_RUNS)
Same(a, b) == a.ok = b.ok /\ a.sols = b.sols /\ a.opt = b.opt /\ a.stats = b.stats
Verdicts(r) ==
  (IF \E k \in 1..Len(r.runs) : r.runs[k].ok \notin {"ok", "skip"} THEN {"C15:run-failed"} ELSE {})
  \cup (IF r.runs[1].ok = "ok" /\ r.runs[2].ok = "ok" /\ ~Same(r.runs[1], r.runs[2]) THEN {"C15:interpreted-run-not-reproducible"} ELSE {})
  \cup (IF r.runs[3].ok = "ok" /\ r.runs[4].ok = "ok" /\ ~Same(r.runs[3], r.runs[4]) THEN {"C15:compiled-run-not-reproducible"} ELSE {})
  \cup (IF r.runs[1].ok = "ok" /\ r.runs[3].ok = "ok" /\ r.runs[1].sols # r.runs[3].sols THEN {"C15:solutions-differ-between-modes"} ELSE {})
  \cup (IF r.runs[1].ok = "ok" /\ r.runs[3].ok = "ok" /\ r.runs[1].opt # r.runs[3].opt THEN {"C15:optimum-differs-between-modes"} ELSE {})
  \cup (IF r.runs[1].ok = "ok" /\ r.runs[3].ok = "ok" /\ r.runs[1].stats # r.runs[3].stats THEN {"C15:statistics-differ-between-modes"} ELSE {})
VARIABLE i
Init == i = 1
Next == /\ i <= Len(Runs)
        /\ \A c \in Verdicts(Runs[i]) : PrintT(<<"VERDICT", Runs[i].rid, c>>)
        /\ (i = Len(Runs) => PrintT(<<"JUDGED", i>>))
        /\ i' = i + 1
Spec == Init /\ [][Next]_i
=============================================================================
