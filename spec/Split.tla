-------------------------------- MODULE Split --------------------------------
(***************************************************************************)
(* Problem.split(k, v): k sub-problems obtained by cutting the shared      *)
(* domain of variable v into consecutive ranges.                           *)
(*                                                                         *)
(*  - Ranges(lo, hi, k): the arithmetic of the code (size \div k values,   *)
(*    one more for the first size % k parts, never an empty part), and the *)
(*    lemma PartitionLemma checked by TLC for all lo, hi, k in scope.      *)
(*  - SplitVerdicts(r): judges one recorded call of the real split and the *)
(*    real solver's enumeration of every part (trace validation).          *)
(***************************************************************************)
EXTENDS NucsAbs, Json, IOUtils

Size(lo, hi) == hi - lo + 1
Parts(lo, hi, k) == IF k > Size(lo, hi) THEN Size(lo, hi) ELSE k
\* width of part i (1-based) among n parts of a domain of size s
PartWidth(s, n, i) == (s \div n) + (IF i - 1 < s % n THEN 1 ELSE 0)
RECURSIVE StartOf(_, _, _, _)
StartOf(lo, s, n, i) == IF i = 1 THEN lo ELSE StartOf(lo, s, n, i - 1) + PartWidth(s, n, i - 1)
Ranges(lo, hi, k) ==
  LET s == Size(lo, hi)  n == Parts(lo, hi, k) IN
  [i \in 1..n |-> <<StartOf(lo, s, n, i), StartOf(lo, s, n, i) + PartWidth(s, n, i) - 1>>]

\* the ranges, IN THE ORDER GIVEN, tile lo..hi (what the arithmetic of the code produces)
IsTiling(rs, lo, hi) ==
  /\ Len(rs) >= 1
  /\ \A i \in 1..Len(rs) : rs[i][1] <= rs[i][2]
  /\ rs[1][1] = lo /\ rs[Len(rs)][2] = hi
  /\ \A i \in 1..(Len(rs) - 1) : rs[i + 1][1] = rs[i][2] + 1
\* what C12 asks of the parts, in whatever order they are returned: non-empty, pairwise disjoint, covering lo..hi
IsPartition(rs, lo, hi) ==
  /\ Len(rs) >= 1
  /\ \A i \in 1..Len(rs) : rs[i][1] <= rs[i][2] /\ lo <= rs[i][1] /\ rs[i][2] <= hi
  /\ \A i, j \in 1..Len(rs) : i < j => (rs[i][2] < rs[j][1] \/ rs[j][2] < rs[i][1])
  /\ \A v \in lo..hi : \E i \in 1..Len(rs) : rs[i][1] <= v /\ v <= rs[i][2]

KMax == 11
---------------------------------------------------------------------------
(* one recorded call:                                                       *)
(*  r = [rid, P, after, k, v, raised, parts: Seq(problem), sols: Seq(Seq(vector)), status: Seq(string), whole]  *)
Records == ndJsonDeserialize(IOEnv.SPLITS)
BagOfSeq(s) == [x \in {s[i] : i \in 1..Len(s)} |-> Cardinality({i \in 1..Len(s) : s[i] = x})]
RECURSIVE Concat(_, _)
Concat(ss, i) == IF i > Len(ss) THEN << >> ELSE ss[i] \o Concat(ss, i + 1)

SplitVerdicts(r) ==
  LET P  == r.P
      d  == DomOf(P, r.v)
      lo == P.doms[d][1]
      hi == P.doms[d][2]
      n  == Len(r.parts)
      rs == [i \in 1..n |-> r.parts[i].doms[d]]
      expected == {SolVector(P, s) : s \in Solutions(P)}
      all == Concat(r.sols, 1)
  IN IF r.raised # "" THEN {"C12:raised"}
     ELSE
     (IF r.after # P THEN {"C12:original-changed"} ELSE {})
     \cup (IF ~r.independent THEN {"C12:parts-share-state-with-each-other-or-the-original"} ELSE {})
     \cup (IF n < 1 \/ n > r.k \/ (r.k <= Size(lo, hi) /\ n # r.k) THEN {"C12:number-of-parts"} ELSE {})
     \cup (IF \E i \in 1..n : \/ r.parts[i].vidx # P.vidx \/ r.parts[i].voff # P.voff \/ r.parts[i].props # P.props
                               \/ \E j \in 1..NDom(P) : j # d /\ r.parts[i].doms[j] # P.doms[j]
           THEN {"C12:part-differs-elsewhere"} ELSE {})
     \cup (IF n >= 1 /\ ~IsPartition(rs, lo, hi) THEN {"C12:ranges-not-a-partition"} ELSE {})
     \cup (IF n >= 1 /\ IsPartition(rs, lo, hi) /\ r.k <= KMax /\ rs # Ranges(lo, hi, r.k) THEN {"DRIFT:ranges-differ-from-the-arithmetic-of-the-specification"} ELSE {})
     \cup (IF \E i \in 1..n : r.status[i] # "ok" THEN {"C12:part-not-solvable"} ELSE {})
     \cup (IF \A i \in 1..n : r.status[i] = "ok" THEN
             (IF \E x \in DOMAIN BagOfSeq(all) : BagOfSeq(all)[x] > 1 THEN {"C12:parts-share-a-solution"} ELSE {})
             \cup (IF {all[i] : i \in 1..Len(all)} # expected THEN {"C12:union-differs-from-solutions"} ELSE {})
             \cup (IF BagOfSeq(all) # BagOfSeq(r.whole) THEN {"C12:union-differs-from-whole-solver"} ELSE {})
           ELSE {})
=============================================================================
