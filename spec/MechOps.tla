------------------------------- MODULE MechOps -------------------------------
(***************************************************************************)
(* The pure operators of the mechanism layer (no variables): queue pop,    *)
(* wake-ups, position-wise write-back, the four variable heuristics and    *)
(* the five value heuristics, contract-level propagator outcomes.          *)
(* NucsMech builds its actions from them; MechTrace replays strict traces  *)
(* of the real engine through the very same definitions.                   *)
(***************************************************************************)
EXTENDS NucsAbs, Json, IOUtils

AllTrue(n) == [p \in 1..n |-> TRUE]
EvMin == 1   EvMax == 2   EvGround == 4
BIG == 1000000          \* stands for sys.maxsize in the heuristics

---------------------------------------------------------------------------
(* propagation queue                                                        *)
\* pop_propagator: lowest triggered index other than prev; prev itself only when alone
Pop(trig, prev) ==
  LET S == {p \in 1..Len(trig) : trig[p] /\ p # prev} IN
  IF S # {} THEN Min(S)
  ELSE IF prev # 0 /\ trig[prev] THEN prev ELSE 0

\* add_propagators(trig, ne_row, triggers, d, events)   (d is a 1-based domain)
AddProps(P, trig, neRow, d, ev) ==
  [p \in 1..Len(trig) |->
     trig[p] \/ (neRow[p] /\ \E b \in {1, 2, 4} : Bit(ev, b) /\ Bit(P.trig[d][p], b))]

\* position-wise write-back of a filtered view (intersection semantics);
\* returns [ok, box, trig, changed]
RECURSIVE WriteBack(_, _, _, _, _, _, _, _)
WriteBack(P, c, out, k, box, trig, neRow, changed) ==
  IF k > Len(c.vars) THEN [ok |-> TRUE, box |-> box, trig |-> trig, changed |-> changed]
  ELSE LET d  == DomOf(P, c.vars[k])
           lo == out[k][1] - OffOf(P, c.vars[k])
           hi == out[k][2] - OffOf(P, c.vars[k])
           nlo == IF box[d][1] < lo THEN lo ELSE box[d][1]
           nhi == IF box[d][2] > hi THEN hi ELSE box[d][2]
           ev0 == (IF box[d][1] < lo THEN EvMin ELSE 0) + (IF box[d][2] > hi THEN EvMax ELSE 0)
           ev  == IF ev0 # 0 /\ nlo = nhi THEN ev0 + EvGround ELSE ev0
           box2 == [box EXCEPT ![d] = <<nlo, nhi>>]
       IN IF ev0 = 0 THEN WriteBack(P, c, out, k + 1, box, trig, neRow, changed)
          ELSE IF nlo > nhi THEN [ok |-> FALSE, box |-> box2, trig |-> trig, changed |-> TRUE]
          ELSE WriteBack(P, c, out, k + 1, box2, AddProps(P, trig, neRow, d, ev), neRow, TRUE)

---------------------------------------------------------------------------
(* heuristics                                                               *)
Sz(box, d) == box[d][2] - box[d][1]
Dec(P) == P.cfg.decision                      \* 0-based decision domains, in order

FirstNI(box, dec) ==
  LET S == {i \in 1..Len(dec) : Sz(box, dec[i] + 1) > 0} IN IF S = {} THEN -1 ELSE dec[Min(S)]
Smallest(box, dec) ==
  LET S == {i \in 1..Len(dec) : Sz(box, dec[i] + 1) > 0} IN
  IF S = {} THEN -1
  ELSE LET m == Min({Sz(box, dec[i] + 1) : i \in S}) IN dec[Min({i \in S : Sz(box, dec[i] + 1) = m})]
Greatest(box, dec) ==
  LET S == {i \in 1..Len(dec) : Sz(box, dec[i] + 1) > 0} IN
  IF S = {} THEN -1
  ELSE LET m == Max({Sz(box, dec[i] + 1) : i \in S}) IN dec[Min({i \in S : Sz(box, dec[i] + 1) = m})]
\* best and second-best positive cost over the values of the domain (one pass, as in the code)
RECURSIVE BestTwo(_, _, _, _, _)
BestTwo(row, v, hi, best, second) ==
  IF v > hi THEN <<best, second>>
  ELSE LET c == row[v + 1] IN
       IF c > 0 /\ c < best THEN BestTwo(row, v + 1, hi, c, best)
       ELSE IF c > 0 /\ c < second THEN BestTwo(row, v + 1, hi, best, c)
       ELSE BestTwo(row, v + 1, hi, best, second)
Regret(P, box, d0) == LET bt == BestTwo(P.cfg.vparams[d0 + 1], box[d0 + 1][1], box[d0 + 1][2], BIG, BIG) IN bt[2] - bt[1]
MaxRegret(P, box, dec) ==
  LET S == {i \in 1..Len(dec) : Sz(box, dec[i] + 1) > 0} IN
  IF S = {} THEN -1
  ELSE LET m == Max({Regret(P, box, dec[i]) : i \in S}) IN dec[Min({i \in S : Regret(P, box, dec[i]) = m})]
ChooseVar(P, box) ==
  CASE P.cfg.vh = 0 -> FirstNI(box, Dec(P))
    [] P.cfg.vh = 1 -> Smallest(box, Dec(P))
    [] P.cfg.vh = 2 -> Greatest(box, Dec(P))
    [] P.cfg.vh = 3 -> MaxRegret(P, box, Dec(P))

\* value heuristics: given the current box and the 1-based domain d, return
\* [levels (bottom..top: the alternatives then the branch taken), upd (one <<d0, events>> per alternative), events]
GroundEv(iv, base) == IF iv[1] = iv[2] THEN base + EvGround ELSE base
MinValue(box, d) ==
  LET v == box[d][1] IN
  [levels |-> << [box EXCEPT ![d] = <<v + 1, box[d][2]>>], [box EXCEPT ![d] = <<box[d][1], v>>] >>,
   upd    |-> << <<d - 1, GroundEv(<<v + 1, box[d][2]>>, EvMin)>> >>,
   events |-> EvMax + EvGround]
MaxValue(box, d) ==
  LET v == box[d][2] IN
  [levels |-> << [box EXCEPT ![d] = <<box[d][1], v - 1>>], [box EXCEPT ![d] = <<v, box[d][2]>>] >>,
   upd    |-> << <<d - 1, GroundEv(<<box[d][1], v - 1>>, EvMax)>> >>,
   events |-> EvMin + EvGround]
SplitLow(box, d) ==
  LET v == (box[d][1] + box[d][2]) \div 2 IN
  [levels |-> << [box EXCEPT ![d] = <<v + 1, box[d][2]>>], [box EXCEPT ![d] = <<box[d][1], v>>] >>,
   upd    |-> << <<d - 1, GroundEv(<<v + 1, box[d][2]>>, EvMin)>> >>,
   events |-> GroundEv(<<box[d][1], v>>, EvMax)]
ValueSplit(box, d, v) ==
  IF v = box[d][1] THEN MinValue(box, d)
  ELSE IF v = box[d][2] THEN MaxValue(box, d)
  ELSE [levels |-> << [box EXCEPT ![d] = <<v + 1, box[d][2]>>], [box EXCEPT ![d] = <<box[d][1], v - 1>>],
                      [box EXCEPT ![d] = <<v, v>>] >>,
        upd    |-> << <<d - 1, GroundEv(<<v + 1, box[d][2]>>, EvMin)>>, <<d - 1, GroundEv(<<box[d][1], v - 1>>, EvMax)>> >>,
        events |-> EvMin + EvMax + EvGround]
RECURSIVE MinCostValue(_, _, _, _, _)
MinCostValue(row, v, hi, best, bestv) ==
  IF v > hi THEN bestv
  ELSE LET c == row[v + 1] IN
       IF 0 < c /\ c < best THEN MinCostValue(row, v + 1, hi, c, v) ELSE MinCostValue(row, v + 1, hi, best, bestv)
BranchOf(P, box, d) ==
  CASE P.cfg.dh = 0 -> MinValue(box, d)
    [] P.cfg.dh = 1 -> MaxValue(box, d)
    [] P.cfg.dh = 2 -> SplitLow(box, d)
    [] P.cfg.dh = 3 -> ValueSplit(box, d, (box[d][1] + box[d][2]) \div 2)
    [] P.cfg.dh = 4 -> ValueSplit(box, d, MinCostValue(P.cfg.dparams[d], box[d][1], box[d][2], BIG, -1))

---------------------------------------------------------------------------
(* propagators at contract level                                            *)
\* the outcomes a contract-abiding propagator may return on an in-contract view
\* P.cfg.ent: 1 = entailment is reported whenever the returned box is entailed, 0 = never,
\* 2 = either (both explored at every execution: exponential, small families only)
Outcomes(P0, c, view) ==
  LET r == Ideal(c.alg, c.params, view) IN
  IF r[1] # 2 THEN {r}
  ELSE IF P0.cfg.ent = 1 THEN {r} ELSE IF P0.cfg.ent = 0 THEN {<<1, r[2]>>} ELSE {r, <<1, r[2]>>}

=============================================================================
