CONSTANTS Faults = TRUE Detect = FALSE Track = FALSE
SPECIFICATION FairSpec
CHECK_DEADLOCK FALSE
INVARIANT TypeOK
INVARIANT C11_Bag
INVARIANT C11_Best
PROPERTY C18_NoHang
