SPECIFICATION FairSpec
CHECK_DEADLOCK FALSE
PROPERTY Terminates
