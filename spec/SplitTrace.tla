------------------------------ MODULE SplitTrace ------------------------------
EXTENDS Split
VARIABLE i
TInit == i = 1
TNext == /\ i <= Len(Records)
         /\ \A c \in SplitVerdicts(Records[i]) : PrintT(<<"VERDICT", Records[i].rid, c>>)
         /\ (i = Len(Records) => PrintT(<<"JUDGED", i>>))
         /\ i' = i + 1
TSpec == TInit /\ [][TNext]_i
=============================================================================
