---------------------------- MODULE ProblemInit ----------------------------
(***************************************************************************)
(* Problem.init(): what the static arrays of an initialised problem must   *)
(* be, given what was posted and what the registered functions declare.    *)
(*   r = [rid, nd, vidx, voff, posted: Seq([vars, alg, params]),           *)
(*        cx: Seq(complexity of posted[i], scaled to an integer),          *)
(*        masks: Seq(Seq(mask per position)) for posted[i],                *)
(*        sorted: Seq(0-based index into posted), trig: [domain][sorted position] masks,  *)
(*        pidx: flattened domain indices, poff: flattened offsets, pvb, ppb: bounds per sorted constraint] *)
(* Clauses:                                                                *)
(*   C13:sort-not-a-permutation / C13:sort-not-stable  the constraints are *)
(*      ordered by complexity and ties keep the posting order (so posting  *)
(*      a constraint twice or permuting equal-cost ones changes nothing    *)
(*      else than the order among equals)                                  *)
(*   C08:trigger-matrix   trig[d][p] = OR of the masks of the positions of *)
(*      p that live on domain d (a domain occurring twice accumulates)     *)
(*   C13:flattened-arrays the cached per-position domain indices / offsets *)
(*      are those of the posted variables                                  *)
(***************************************************************************)
EXTENDS Integers, Sequences, FiniteSets, FiniteSetsExt, TLC, Json, IOUtils

Recs == ndJsonDeserialize(IOEnv.INIT_RECS)
BitOr(a, b) == LET bit(k) == IF (a \div k) % 2 = 1 \/ (b \div k) % 2 = 1 THEN k ELSE 0 IN bit(1) + bit(2) + bit(4)
RECURSIVE OrAll(_, _)
OrAll(s, k) == IF k > Len(s) THEN 0 ELSE BitOr(s[k], OrAll(s, k + 1))

IsPerm(r) == Len(r.sorted) = Len(r.posted) /\ {r.sorted[k] : k \in 1..Len(r.sorted)} = 0..(Len(r.posted) - 1)
IsStable(r) == \A a, b \in 1..Len(r.sorted) : a < b =>
                 LET i == r.sorted[a] + 1  j == r.sorted[b] + 1 IN
                 r.cx[i] < r.cx[j] \/ (r.cx[i] = r.cx[j] /\ i < j)
ExpectedTrig(r, d, p) ==          \* d: 0-based domain, p: 1-based sorted position
  LET c == r.posted[r.sorted[p] + 1]
      m == r.masks[r.sorted[p] + 1]
  IN OrAll([k \in 1..Len(c.vars) |-> IF r.vidx[c.vars[k] + 1] = d THEN m[k] ELSE 0], 1)
RECURSIVE FlatIdx(_, _)
FlatIdx(r, p) == IF p > Len(r.sorted) THEN << >>
                 ELSE LET c == r.posted[r.sorted[p] + 1] IN [k \in 1..Len(c.vars) |-> r.vidx[c.vars[k] + 1]] \o FlatIdx(r, p + 1)
RECURSIVE FlatOff(_, _)
FlatOff(r, p) == IF p > Len(r.sorted) THEN << >>
                 ELSE LET c == r.posted[r.sorted[p] + 1] IN [k \in 1..Len(c.vars) |-> r.voff[c.vars[k] + 1]] \o FlatOff(r, p + 1)

Verdicts(r) ==
  \* Only what the properties demand can be a violation: every posted constraint is kept exactly once (C13) and
  \* every event a constraint declares on a domain reaches the matrix (C08; waking MORE is allowed).  The exact
  \* order (stable sort by complexity) and the layout of the cached arrays are mirrors of the current code: DRIFT.
  (IF ~IsPerm(r) THEN {"C13:init-loses-or-duplicates-a-constraint"} ELSE
     (IF ~IsStable(r) THEN {"DRIFT:sort-not-stable-by-complexity"} ELSE {})
     \cup (IF \E d \in 0..(r.nd - 1), p \in 1..Len(r.sorted) : BitOr(r.trig[d + 1][p], ExpectedTrig(r, d, p)) # r.trig[d + 1][p]
           THEN {"C08:trigger-matrix-misses-a-declared-event"} ELSE {})
     \cup (IF \E d \in 0..(r.nd - 1), p \in 1..Len(r.sorted) : r.trig[d + 1][p] # ExpectedTrig(r, d, p)
           THEN {"DRIFT:trigger-matrix-differs"} ELSE {})
     \cup (IF r.pidx # FlatIdx(r, 1) \/ r.poff # FlatOff(r, 1)
           THEN {"DRIFT:flattened-arrays"} ELSE {}))

VARIABLE i
Init == i = 1
Next == /\ i <= Len(Recs)
        /\ \A c \in Verdicts(Recs[i]) : PrintT(<<"VERDICT", Recs[i].rid, c>>)
        /\ (i = Len(Recs) => PrintT(<<"JUDGED", i>>))
        /\ i' = i + 1
Spec == Init /\ [][Next]_i
=============================================================================
