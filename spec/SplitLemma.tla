------------------------------ MODULE SplitLemma ------------------------------
EXTENDS Split
---------------------------------------------------------------------------
(* the lemma, as a one-state-per-instance exploration                       *)
LoB == -3   HiB == 4
VARIABLES a, b, k
Init == a \in LoB..HiB /\ b \in LoB..HiB /\ a <= b /\ k \in 1..KMax
Next == UNCHANGED <<a, b, k>>
PartitionLemma == IsTiling(Ranges(a, b, k), a, b) /\ IsPartition(Ranges(a, b, k), a, b) /\ Len(Ranges(a, b, k)) = Parts(a, b, k)
BalancedLemma  == \A i, j \in 1..Len(Ranges(a, b, k)) :
                     LET w(x) == Ranges(a, b, k)[x][2] - Ranges(a, b, k)[x][1] IN w(i) - w(j) \in {-1, 0, 1}

=============================================================================
