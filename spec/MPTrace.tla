------------------------------ MODULE MPTrace ------------------------------
(***************************************************************************)
(* Runs of the REAL parent loop of MultiprocessingSolver (replayed against *)
(* every arrival order TLC enumerated from MPSolver, or recorded from real *)
(* processes) judged against the specification's parent (MPParent) and     *)
(* against the sequential solver.  One state per run, total verdicts.      *)
(***************************************************************************)
EXTENDS MPParent, FiniteSets, FiniteSetsExt, TLC, Json, IOUtils

Runs == ndJsonDeserialize(IOEnv.RUNS)

RECURSIVE Fold(_, _, _, _, _)
Fold(mode, streams, st, gets, k) ==
  IF k > Len(gets) THEN st ELSE Fold(mode, streams, ParentStep(mode, streams, st, gets[k]), gets, k + 1)

\* per-worker FIFO: the k-th message read from worker w is its k-th message
IsMerge(gets) == \A k \in 1..Len(gets) :
                    gets[k][2] = Cardinality({j \in 1..k : gets[j][1] = gets[k][1]})
BagOf(seq) == [x \in {seq[k] : k \in 1..Len(seq)} |-> Cardinality({k \in 1..Len(seq) : seq[k] = x})]
RECURSIVE SumAt(_, _, _)
SumAt(finals, i, w) == IF w > Len(finals) THEN 0 ELSE finals[w][i] + SumAt(finals, i, w + 1)
MaxAt(finals, i) == Max({finals[w][i] : w \in 1..Len(finals)})

Verdicts(r) ==
  LET st   == Fold(r.mode, r.streams, ParentInit(r.streams), r.gets, 1)
      nmsg == Len(r.streams)
      total == SumAt([w \in 1..Len(r.streams) |-> <<MsgCount(r.streams, w)>>], 1, 1)
      expY == [k \in 1..Len(st.yielded) |-> r.sols[st.yielded[k][1]][st.yielded[k][2]]]
      statsOK == Len(r.agg) = 13 /\ \A i \in 1..13 : r.agg[i] = (IF i = 12 THEN MaxAt(r.finals, i) ELSE SumAt(r.finals, i, 1))
  IN (IF r.raised # "" THEN {"C11:raised"} ELSE {})
     \cup (IF ~IsMerge(r.gets) THEN {"XX:not-a-merge"} ELSE {})
     \cup (IF r.raised = "" /\ (Len(r.gets) # total \/ st.nb # 0) THEN {"C11:returns-before-all-finished"} ELSE {})
     \* the property fixes the multiset, not the order: yielding in another order than the arrival order is drift
     \cup (IF r.raised = "" /\ r.mode = "solve" /\ r.yields # expY /\ BagOf(r.yields) = BagOf(expY) THEN {"DRIFT:yields-not-in-arrival-order"} ELSE {})
     \cup (IF r.raised = "" /\ r.mode = "solve" /\ BagOf(r.yields) # BagOf(expY) THEN {"C11:yields-differ-from-what-the-workers-sent"} ELSE {})
     \cup (IF r.hasseq /\ r.raised = "" /\ r.mode = "solve" /\ BagOf(r.yields) # BagOf(r.seq) THEN {"C11:bag-differs-from-sequential"} ELSE {})
     \cup (IF r.hasseq /\ r.raised = "" /\ r.mode # "solve" /\ (r.none # r.seqnone) THEN {"C11:none-iff-infeasible"} ELSE {})
     \cup (IF r.hasseq /\ r.raised = "" /\ r.mode # "solve" /\ ~r.none /\ ~r.seqnone /\ r.ret[r.var + 1] # r.seqopt
           THEN {"C11:optimum-differs-from-sequential"} ELSE {})
     \cup (IF r.raised = "" /\ r.mode # "solve" /\ ~r.none /\ st.best # << >>
              /\ r.ret[r.var + 1] # r.sols[st.best[1]][st.best[2]][r.var + 1]
           THEN {"C11:not-the-best-incumbent"} ELSE {})
     \cup (IF r.raised = "" /\ r.mode # "solve" /\ (r.none # (st.best = << >>)) THEN {"C11:none-iff-no-incumbent"} ELSE {})
     \cup (IF r.raised = "" /\ ~statsOK THEN {"C11:stats-not-sums", "C17:mp-stats-not-sums"} ELSE {})

VARIABLE i
Init == i = 1
Next == /\ i <= Len(Runs)
        /\ \A c \in Verdicts(Runs[i]) : PrintT(<<"VERDICT", Runs[i].rid, c>>)
        /\ (i = Len(Runs) => PrintT(<<"JUDGED", i>>))
        /\ i' = i + 1
Spec == Init /\ [][Next]_i
=============================================================================
