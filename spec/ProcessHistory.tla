--------------------------- MODULE ProcessHistory ---------------------------
(***************************************************************************)
(* One interpreter process using NuCS over time (C15): problem objects are *)
(* created and re-used, solvers are constructed, stepped, drained,         *)
(* abandoned half-way, and custom propagators / heuristics / consistency   *)
(* algorithms are registered in the module-level registries in between.    *)
(*                                                                         *)
(* The specification says what each step must deliver: the next element of *)
(* the REFERENCE run of (problem template, configuration) - a run made in  *)
(* a fresh interpreter - whatever happened before in the process.          *)
(*                                                                         *)
(*  stage "generate": TLC enumerates the histories (every behaviour up to  *)
(*                    MaxOps operations) and prints them;                  *)
(*  stage "judge"   : TLC folds each executed history through the same     *)
(*                    step function and compares every observation.        *)
(***************************************************************************)
EXTENDS Integers, Sequences, FiniteSets, TLC, Json, IOUtils

Ref == JsonDeserialize(IOEnv.HISTORY_REF)      \* [nt, nc, maxops, nsols: <<<<n per cfg>> per template>>]
NT == Ref.nt                                   \* base templates; template NT + 2(t-1) + b = part b of split(2, var 0) of t
NC == Ref.nc
MaxOps == Ref.maxops
NSols(t, c) == Ref.nsols[t][c]

(* pure step function: state = [probs, solvers, regs]; op = [op, a, b]      *)
St0 == [probs |-> << >>, solvers |-> << >>, regs |-> 0]
Running(st, s) == s \in 1..Len(st.solvers) /\ st.solvers[s].st = "running"
Enabled(st, o) ==
  CASE o.op = "newproblem" -> Len(st.probs) < 2 /\ o.a \in 1..NT
    \* Problem.split(2, 0) of an existing problem object - whatever was built on it or solved with it before; the part
    \* kept becomes a problem object of its own (at most one split per history)
    [] o.op = "split"      -> Len(st.probs) < 3 /\ o.a \in 1..Len(st.probs) /\ st.probs[o.a] <= NT /\ o.b \in 1..2
                              /\ \A k \in 1..Len(st.probs) : st.probs[k] <= NT
    [] o.op = "newsolver"  -> Len(st.solvers) < 3 /\ o.a \in 1..Len(st.probs) /\ o.b \in 1..NC
    [] o.op = "step"       -> Running(st, o.a)
    [] o.op = "drain"      -> Running(st, o.a)
    [] o.op = "abandon"    -> Running(st, o.a)
    [] o.op = "register"   -> st.regs < 2 /\ o.a \in 1..4
    [] OTHER -> FALSE
\* what the operation must deliver: <<kind, template, config, from, to>> = the elements from+1..to of the
\* reference run, followed by "end" when the run is exhausted
Expect(st, o) ==
  IF o.op \in {"step", "drain"} THEN
     LET sv == st.solvers[o.a]
         t  == st.probs[sv.prob]
         n  == NSols(t, sv.cfg)
         to == IF o.op = "drain" THEN n ELSE IF sv.cursor < n THEN sv.cursor + 1 ELSE n
     IN [t |-> t, c |-> sv.cfg, from |-> sv.cursor, to |-> to,
         ends |-> (o.op = "drain" \/ sv.cursor >= n)]
  ELSE [t |-> 0, c |-> 0, from |-> 0, to |-> 0, ends |-> FALSE]
Apply(st, o) ==
  CASE o.op = "newproblem" -> [st EXCEPT !.probs = Append(@, o.a)]
    [] o.op = "split"      -> [st EXCEPT !.probs = Append(@, NT + 2 * (st.probs[o.a] - 1) + o.b)]
    [] o.op = "newsolver"  -> [st EXCEPT !.solvers = Append(@, [prob |-> o.a, cfg |-> o.b, cursor |-> 0, st |-> "running"])]
    [] o.op = "step"       -> LET e == Expect(st, o) IN
                              [st EXCEPT !.solvers[o.a].cursor = e.to, !.solvers[o.a].st = IF e.ends THEN "done" ELSE "running"]
    [] o.op = "drain"      -> [st EXCEPT !.solvers[o.a].cursor = Expect(st, o).to, !.solvers[o.a].st = "done"]
    [] o.op = "abandon"    -> [st EXCEPT !.solvers[o.a].st = "abandoned"]
    [] o.op = "register"   -> [st EXCEPT !.regs = @ + 1]

AllOps == {[op |-> "newproblem", a |-> t, b |-> 0] : t \in 1..NT}
          \cup {[op |-> "newsolver", a |-> p, b |-> c] : p \in 1..3, c \in 1..NC}
          \cup {[op |-> "split", a |-> p, b |-> k] : p \in 1..2, k \in 1..2}
          \cup {[op |-> k, a |-> s, b |-> 0] : k \in {"step", "drain", "abandon"}, s \in 1..3}
          \cup {[op |-> "register", a |-> k, b |-> 0] : k \in 1..4}

---------------------------------------------------------------------------
VARIABLES st, hist, i
vars == <<st, hist, i>>
Stage == IOEnv.HISTORY_STAGE

\* ---- generate
GInit == st = St0 /\ hist = << >> /\ i = 0
Interesting(h) == \E k \in 1..Len(h) : h[k].op \in {"step", "drain"}
GNext == /\ Len(hist) < MaxOps
         /\ \E o \in AllOps : /\ Enabled(st, o)
                              /\ st' = Apply(st, o) /\ hist' = Append(hist, o) /\ i' = i
                              /\ ((Len(hist') = MaxOps /\ Interesting(hist')) =>
                                     PrintT(<<"ORDER", [k \in 1..Len(hist') |-> <<hist'[k].op, hist'[k].a, hist'[k].b>>]>>))
\* design-level invariants of the model itself
CursorOK == \A s \in 1..Len(st.solvers) : st.solvers[s].cursor <= NSols(st.probs[st.solvers[s].prob], st.solvers[s].cfg)

\* ---- judge: Runs = executed histories [rid, ops: <<[op,a,b]>>, obs: <<[sols: <<vectors>>, ended, meaning_ok, raised]>>, refs]
Runs == ndJsonDeserialize(IOEnv.HISTORY_RUNS)
RefSols == JsonDeserialize(IOEnv.HISTORY_REFSOLS)        \* <<<<sequence of solution vectors per cfg>> per template>>
RECURSIVE Judge(_, _, _, _)
Judge(r, k, s, bad) ==
  IF k > Len(r.ops) THEN bad
  ELSE LET o == r.ops[k]
           ob == r.obs[k]
           e == Expect(s, o)
           want == IF o.op \in {"step", "drain"} THEN SubSeq(RefSols[e.t][e.c].sols, e.from + 1, e.to) ELSE << >>
           b1 == IF ~Enabled(s, o) THEN {"XX:history-not-enabled"} ELSE {}
           b2 == IF ob.raised # "" THEN {"C15:raised"} ELSE {}
           b3 == IF ob.raised = "" /\ o.op \in {"step", "drain"} /\ ob.sols # want THEN {"C15:step-differs-from-reference-run"} ELSE {}
           b4 == IF ob.raised = "" /\ o.op \in {"step", "drain"} /\ ob.ended # e.ends THEN {"C15:end-of-enumeration-differs"} ELSE {}
           b5 == IF ob.raised = "" /\ o.op = "newsolver" /\ ~ob.meaning_ok THEN {"C15:solver-construction-changes-the-problem"} ELSE {}
           b6 == IF ob.raised = "" /\ o.op \in {"step", "drain"} /\ e.ends /\ ob.ended /\ ob.stats # RefSols[e.t][e.c].stats
                 THEN {"C15:statistics-differ-from-reference-run"} ELSE {}
           \* the caller's own configuration objects (decision domains, cost tables) are reused for later solvers
           b7 == IF ob.raised = "" /\ o.op = "newsolver" /\ ~ob.args_ok THEN {"C15:solver-construction-changes-the-caller's-configuration"} ELSE {}
       IN Judge(r, k + 1, Apply(s, o), bad \cup b1 \cup b2 \cup b3 \cup b4 \cup b5 \cup b6 \cup b7)
JInit == i = 1 /\ st = St0 /\ hist = << >>
JNext == /\ i <= Len(Runs)
         /\ \A c \in Judge(Runs[i], 1, St0, {}) : PrintT(<<"VERDICT", Runs[i].rid, c>>)
         /\ (i = Len(Runs) => PrintT(<<"JUDGED", i>>))
         /\ i' = i + 1 /\ UNCHANGED <<st, hist>>

Init == IF Stage = "generate" THEN GInit ELSE JInit
Next == IF Stage = "generate" THEN GNext ELSE JNext
Spec == Init /\ [][Next]_vars
=============================================================================
