------------------------------ MODULE SolTrace ------------------------------
(***************************************************************************)
(* C01 at API level, for any solver: a reported vector gives every         *)
(* variable a value inside its declared domain, variables sharing a domain *)
(* differ exactly by their offsets, and every posted constraint holds.     *)
(* Used for the vectors delivered by the MultiprocessingSolver (real       *)
(* processes, enumeration and optimisation).                               *)
(***************************************************************************)
EXTENDS NucsAbs, Json, IOUtils
Recs == ndJsonDeserialize(IOEnv.SOL_RECS)     \* [rid, P, sols: Seq(vector)]

\* the shared-domain assignment a vector stands for (taken from the first variable living on each domain)
AsgOf(P, vec) == [d \in 1..NDom(P) |->
                    LET vs == {v \in 1..Len(P.vidx) : P.vidx[v] + 1 = d} IN
                    IF vs = {} THEN P.doms[d][1] ELSE LET v == Min(vs) IN vec[v] - P.voff[v]]
VecVerdicts(P, vec) ==
  LET s == AsgOf(P, vec) IN
  (IF Len(vec) # Len(P.vidx) THEN {"C01:solution-vector"} ELSE
     (IF vec # SolVector(P, s) THEN {"C01:offsets"} ELSE {})
     \cup (IF ~InBox(s, P.doms) THEN {"C01:in-domain"} ELSE {})
     \cup (IF ~SatAll(P, s) THEN {"C01:sat-all"} ELSE {}))
Verdicts(r) == UNION {VecVerdicts(r.P, r.sols[k]) : k \in 1..Len(r.sols)}

VARIABLE i
Init == i = 1
Next == /\ i <= Len(Recs)
        /\ (IF WellFormed(Recs[i].P) THEN \A c \in Verdicts(Recs[i]) : PrintT(<<"VERDICT", Recs[i].rid, c>>)
            ELSE PrintT(<<"VERDICT", Recs[i].rid, "XX:ill-formed">>))
        /\ (i = Len(Recs) => PrintT(<<"JUDGED", i>>))
        /\ i' = i + 1
Spec == Init /\ [][Next]_i
=============================================================================
