CONSTANTS Faults = TRUE Detect = TRUE Track = FALSE
SPECIFICATION FairSpec
CHECK_DEADLOCK FALSE
INVARIANT TypeOK
INVARIANT C11_Bag
INVARIANT C11_Best
INVARIANT C11_ReturnsAfterAll
PROPERTY C18_NoHang
