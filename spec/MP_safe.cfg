CONSTANTS Faults = FALSE Detect = FALSE Track = FALSE
SPECIFICATION FairSpec
CHECK_DEADLOCK FALSE
INVARIANT TypeOK
INVARIANT C11_Bag
INVARIANT C11_PrefixIsPartial
INVARIANT C11_Best
INVARIANT C11_ReturnsAfterAll
INVARIANT C11_NeverReadsBeyond
PROPERTY C11_Returns
