SPECIFICATION Spec
CHECK_DEADLOCK FALSE
INVARIANT TypeOK
INVARIANT C01_ReportedSat
INVARIANT C02_NoDuplicate
INVARIANT C02_Complete
INVARIANT C02_Accounted
INVARIANT C09_FramesDisjoint
INVARIANT C03_Optimal
INVARIANT C03_NeverSearchesEmpty
INVARIANT C04_PassBounded
INVARIANT C04_NoBranchOnNothing
INVARIANT C07_EnabledSound
INVARIANT C08_Shrinks
INVARIANT C08_Fixpoint
INVARIANT C08_Greatest
INVARIANT C08_KeepsSolutions
INVARIANT C08_FailsOnlyWithoutSolution
INVARIANT C10_Sound
INVARIANT C10_InsideBC
INVARIANT C17_Exact
INVARIANT C17_Conservation
INVARIANT C17_Solutions
INVARIANT C19_Fits
