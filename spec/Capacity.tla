------------------------------ MODULE Capacity ------------------------------
(***************************************************************************)
(* C19 - the capacity sweep.  n free variables, stack height h, value      *)
(* heuristic dh; each scenario runs in its own process (both modes).       *)
(* The specification does not prescribe WHEN an implementation must refuse *)
(* (it may manage with less or more levels); it prescribes that whatever   *)
(* is returned is right, and that the process ends normally:               *)
(*   - outcome "raised"/"refused": always acceptable;                      *)
(*   - outcome "ok": every reported solution inside the domains, no        *)
(*     duplicate, the right number of them, the depth counter equal to the *)
(*     number of levels the search really needs - the signature of a       *)
(*     wrapped or overwritten stack pointer is a wrong depth / solution;   *)
(*   - an abnormal exit status (signal) or a deadline is a violation.      *)
(***************************************************************************)
EXTENDS Integers, Sequences, TLC, Json, IOUtils
Runs == ndJsonDeserialize(IOEnv.CAPACITY_RUNS)
RECURSIVE Pow(_, _)
Pow(b, e) == IF e = 0 THEN 1 ELSE b * Pow(b, e - 1)
Width(r) == IF r.dh = 3 THEN 3 ELSE 2                 \* mid value runs on [0,2], the others on [0,1]
Levels(r) == IF r.dh = 3 THEN 2 * r.n ELSE r.n        \* deepest stack level an exhaustive search reaches
Verdicts(r) ==
  IF r.exit # 0 THEN {"C19:abnormal-exit"}
  ELSE IF r.outcome = "deadline" THEN {"C19:no-answer"}
  ELSE IF r.outcome \in {"raised", "refused"} THEN {}
  \* index-type limits (cumulated positions / parameters, constraints, domains, algorithms): a problem that is
  \* accepted is answered exactly - every reported assignment valid, the known number of them
  ELSE IF r.kind = "limit" THEN
       (IF ~r.valid THEN {"C19:oversized-problem-answered-with-an-invalid-solution"} ELSE {})
       \cup (IF r.count # r.expected THEN {"C19:oversized-problem-answered-with-missing-or-extra-solutions"} ELSE {})
  ELSE (IF ~r.indomain THEN {"C19:solution-outside-domains"} ELSE {})
       \cup (IF ~r.distinct THEN {"C19:duplicated-solution"} ELSE {})
       \cup (IF r.full /\ r.count # Pow(Width(r), r.n) THEN {"C19:wrong-number-of-solutions"} ELSE {})
       \cup (IF r.full /\ r.depth # Levels(r) THEN {"C19:depth-counter-wrapped"} ELSE {})
       \cup (IF ~r.full /\ r.dh \in {0, 1, 2} /\ r.depth # r.n THEN {"C19:depth-counter-wrapped"} ELSE {})
       \cup (IF ~r.first_ok THEN {"C19:wrong-first-solution"} ELSE {})
VARIABLE i
Init == i = 1
Next == /\ i <= Len(Runs)
        /\ \A c \in Verdicts(Runs[i]) : PrintT(<<"VERDICT", Runs[i].rid, c>>)
        /\ (i = Len(Runs) => PrintT(<<"JUDGED", i>>))
        /\ i' = i + 1
Spec == Init /\ [][Next]_i
=============================================================================
