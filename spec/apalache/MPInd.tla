------------------------------- MODULE MPInd -------------------------------
(***************************************************************************)
(* Unbounded safety of the multiprocessing reducer (C11), discharged by    *)
(* Apalache as an inductive invariant: for ANY number of messages per      *)
(* worker (and the workers of W), when the parent's counter of completion  *)
(* markers reaches 0 every worker's solutions have all been yielded,       *)
(* exactly once.  Abstraction of MPSolver.tla: a message is                *)
(* <<worker, isMarker>>; solutions are counted, not named.                 *)
(*   apalache-mc check --init=IndInit --inv=IndInv --length=1 MPInd.tla    *)
(*   apalache-mc check --init=Init    --inv=IndInv --length=0 MPInd.tla    *)
(*   (IndInv => Safe is checked with --init=IndInit --inv=Safe --length=0) *)
(***************************************************************************)
EXTENDS Integers, Sequences, FiniteSets, Apalache

W == {1, 2, 3}
MaxTotal == 3           \* bound used only to generate the arbitrary state of the inductive step
MaxQueue == 4

VARIABLES
  \* @type: Int -> Int;
  total,
  \* @type: Int -> Int;
  sent,
  \* @type: Seq(<<Int, Bool>>);
  queue,
  \* @type: Int;
  nb,
  \* @type: Int -> Int;
  got,
  \* @type: Int -> Bool;
  fin

\* @type: (Seq(<<Int, Bool>>), Int, Bool) => Int;
CountQ(q, w, m) == Cardinality({i \in DOMAIN q : q[i] = <<w, m>>})

Init ==
  /\ total \in [W -> 0..MaxTotal]
  /\ sent = [w \in W |-> 0] /\ queue = <<>> /\ nb = Cardinality(W)
  /\ got = [w \in W |-> 0] /\ fin = [w \in W |-> FALSE]

Put(w) ==
  /\ sent[w] <= total[w] /\ Len(queue) < MaxQueue
  /\ queue' = Append(queue, <<w, sent[w] = total[w]>>)
  /\ sent' = [sent EXCEPT ![w] = @ + 1]
  /\ UNCHANGED <<total, nb, got, fin>>

Get ==
  /\ nb > 0 /\ Len(queue) > 0
  /\ LET m == Head(queue) IN
     /\ queue' = Tail(queue)
     /\ IF m[2] THEN nb' = nb - 1 /\ fin' = [fin EXCEPT ![m[1]] = TRUE] /\ got' = got
        ELSE nb' = nb /\ fin' = fin /\ got' = [got EXCEPT ![m[1]] = @ + 1]
  /\ UNCHANGED <<total, sent>>

Next == (\E w \in W : Put(w)) \/ Get

TypeOK ==
  /\ total \in [W -> 0..MaxTotal] /\ sent \in [W -> 0..(MaxTotal + 1)] /\ got \in [W -> 0..MaxTotal]
  /\ fin \in [W -> BOOLEAN] /\ nb \in 0..Cardinality(W)
  /\ Len(queue) <= MaxQueue
  /\ \A i \in DOMAIN queue : queue[i][1] \in W

IndInv ==
  /\ TypeOK
  /\ nb = Cardinality({w \in W : ~fin[w]})
  /\ \A w \in W :
       /\ sent[w] <= total[w] + 1
       \* every solution put so far is either still in the queue or has been yielded
       /\ got[w] + CountQ(queue, w, FALSE) = (IF sent[w] <= total[w] THEN sent[w] ELSE total[w])
       \* the marker is in the queue or consumed, exactly once, exactly when it has been put
       /\ CountQ(queue, w, TRUE) + (IF fin[w] THEN 1 ELSE 0) = (IF sent[w] = total[w] + 1 THEN 1 ELSE 0)
       \* per-worker FIFO: nothing of w behind its marker
       /\ \A i, j \in DOMAIN queue : (i < j /\ queue[i] = <<w, TRUE>>) => queue[j][1] # w
       /\ fin[w] => CountQ(queue, w, FALSE) = 0

IndInit ==
  /\ total = Gen(3) /\ sent = Gen(3) /\ got = Gen(3) /\ fin = Gen(3) /\ nb = Gen(1) /\ queue = Gen(MaxQueue)
  /\ DOMAIN total = W /\ DOMAIN sent = W /\ DOMAIN got = W /\ DOMAIN fin = W
  /\ IndInv

\* C11: the call returns (nb = 0) only after every solution of every worker has been yielded
Safe == nb = 0 => \A w \in W : got[w] = total[w] /\ fin[w]
=============================================================================
