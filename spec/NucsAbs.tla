------------------------------ MODULE NucsAbs ------------------------------
(***************************************************************************)
(* Layer A - the property-level specification of the NuCS engine.          *)
(*                                                                         *)
(* Abstract state: the position in the search tree as a stack of frames    *)
(* [box, en] (last = current; below = the saved alternatives), what has    *)
(* been yielded, the observed event counts (in the layout of the           *)
(* statistics array) and - when the root box is small - the set of         *)
(* solutions computed by brute force from Constraints!Sat.                 *)
(*                                                                         *)
(* Every action is a conjunction of NAMED CLAUSES, each prefixed by the    *)
(* property it decides (C01..C19).  The clauses demand what the properties *)
(* state and nothing more: any queue order, any number of filter calls,    *)
(* any internal bookkeeping satisfying them is a behaviour of this spec.   *)
(*                                                                         *)
(* Step(T, s, e) = <<s', failed>>  consumes one recorded event e of the    *)
(* trace T in state s.  It is used by AbsTrace (traces of the real code)   *)
(* and by NucsMech (refinement: every mechanism step is an abstract step). *)
(***************************************************************************)
EXTENDS Constraints, SequencesExt

SolCap == 700       \* brute-force oracle only when the root box has at most that many points
GfpCap == 400       \* greatest-fixpoint oracle only on boxes with at most that many points

---------------------------------------------------------------------------
(* Problems: P = [doms, vidx, voff, props: Seq([vars, alg, params]), trig]  *)
NDom(P)  == Len(P.doms)
NProp(P) == Len(P.props)
DomOf(P, v) == P.vidx[v + 1] + 1          \* 0-based variable -> 1-based shared domain
OffOf(P, v) == P.voff[v + 1]
CTuple(P, c, s)   == [k \in 1..Len(c.vars) |-> s[DomOf(P, c.vars[k])] + OffOf(P, c.vars[k])]
ViewBox(P, c, b)  == [k \in 1..Len(c.vars) |->
                        <<b[DomOf(P, c.vars[k])][1] + OffOf(P, c.vars[k]),
                          b[DomOf(P, c.vars[k])][2] + OffOf(P, c.vars[k])>>]
SolVector(P, s)   == [v \in 1..Len(P.vidx) |-> s[P.vidx[v] + 1] + P.voff[v]]

\* the relation a solution is judged against (C06's carve-out for the circuit constraints)
SatC(P, c, s) == LET t == CTuple(P, c, s) IN
                 IF c.alg \in CircuitAlgs THEN (IsPerm0(t) => IsCircuit(t)) ELSE Sat(c.alg, c.params, t)
SatAll(P, s)   == \A q \in 1..NProp(P) : SatC(P, P.props[q], s)
Solutions(P)   == {s \in TuplesOf(P.doms) : SatAll(P, s)}
\* every assignment of the box satisfies c - enumerated over the shared domains c really uses (the others are
\* irrelevant); beyond EntailCap points the question is left open (no verdict rather than a guess)
EntailCap == 20000
DomsOf(P, c) == {DomOf(P, c.vars[k]) : k \in 1..Len(c.vars)}
EntailedOn(P, c, box) ==
  LET ds  == SetToSeq(DomsOf(P, c))
      sub == [k \in 1..Len(ds) |-> box[ds[k]]]
      pos(d) == CHOOSE k \in 1..Len(ds) : ds[k] = d
  IN BoxSize(sub) > EntailCap \/
     \A t \in TuplesOf(sub) :
        Sat(c.alg, c.params, [k \in 1..Len(c.vars) |-> t[pos(DomOf(P, c.vars[k]))] + OffOf(P, c.vars[k])])

VarSet(c) == {c.vars[k] : k \in 1..Len(c.vars)}
WellFormed(P) ==
  /\ Len(P.vidx) = Len(P.voff) /\ NonEmptyBox(P.doms)
  /\ \A v \in 1..Len(P.vidx) : P.vidx[v] \in 0..(NDom(P) - 1)
  /\ \A q \in 1..NProp(P) :
        LET c == P.props[q] IN
        /\ \A k \in 1..Len(c.vars) : c.vars[k] \in 0..(Len(P.vidx) - 1)
        /\ InContract(c.alg, c.params, ViewBox(P, c, P.doms))
        /\ c.alg \in CircuitAlgs =>
              \E r \in 1..NProp(P) : P.props[r].alg = "alldifferent" /\ VarSet(P.props[r]) = VarSet(c)

\* no shared domain occurs twice in one constraint and every algorithm is an exact-hull one
Aliased(P, c) == \E i, j \in 1..Len(c.vars) : i < j /\ DomOf(P, c.vars[i]) = DomOf(P, c.vars[j])
GfpApplicable(P) == \A q \in 1..NProp(P) : P.props[q].alg \in HullAlgs /\ ~Aliased(P, P.props[q])

(* greatest common fixpoint of the exact hull propagators of the enabled     *)
(* constraints (chaotic iteration; unique because they are monotone)         *)
PutBack(P, c, h, box) ==
  [d \in 1..Len(box) |->
     LET K == {k \in 1..Len(c.vars) : DomOf(P, c.vars[k]) = d} IN
     IF K = {} THEN box[d]
     ELSE LET k == CHOOSE x \in K : TRUE IN <<h[k][1] - OffOf(P, c.vars[k]), h[k][2] - OffOf(P, c.vars[k])>>]
RECURSIVE GfpRound(_, _, _, _)
GfpRound(P, en, box, q) ==
  IF q > NProp(P) THEN <<TRUE, box>>
  ELSE IF ~en[q] THEN GfpRound(P, en, box, q + 1)
  ELSE LET c == P.props[q]
           v == ViewBox(P, c, box)
           S == Supports(c.alg, c.params, v)
       IN IF S = {} THEN <<FALSE, box>>
          ELSE GfpRound(P, en, PutBack(P, c, Hull(S, Len(v)), box), q + 1)
RECURSIVE Gfp(_, _, _)
Gfp(P, en, box) ==
  LET r == GfpRound(P, en, box, 1) IN
  IF ~r[1] THEN r ELSE IF r[2] = box THEN r ELSE Gfp(P, en, r[2])

RECURSIVE WidthSum(_, _)
WidthSum(doms, k) == IF k > Len(doms) THEN 0 ELSE (doms[k][2] - doms[k][1] + 1) + WidthSum(doms, k + 1)
PassBound(P) == 8 * NProp(P) * (2 + WidthSum(P.doms, 1))
\* C04 for one shaving call: between two successful shaves (each removes a value: at most "values" of them) the loop
\* probes each bound of each domain at most once, whatever the order in which it visits them or where it resumes after
\* a shave; every probe is at most 6 events (main pass, choice, branch, pass, resume, slack).  A bound on the events
\* between the start of a shaving call and its end that any reasonable shaving loop satisfies.
ShaveBound(P) == 6 * (WidthSum(P.doms, 1) + 1) * (2 * NDom(P) + 2)
\* C04 for a whole call: a search tree whose branches are non-empty disjoint sub-boxes has at most 2N nodes (N = points
\* of the root box); a node is a pass (plus one shaving call), a choice, a branch / a solution, a resume; an optimisation
\* restarts at most once per value of the objective.  Saturates with BoxSize: no verdict on large problems.
RunBound(T) ==
  LET P  == T.P
      N  == BoxSize(P.doms)
      sb == IF T.cfgx.ca = 1 THEN ShaveBound(P) + 2 ELSE 0
      R  == IF T.mode = "solve" THEN 1 ELSE P.doms[DomOf(P, T.var)][2] - P.doms[DomOf(P, T.var)][1] + 3
  IN IF N >= 100000 \/ T.cfgx.ca \notin {0, 1} THEN 1000000000 ELSE R * (2 * N * (2 + sb) + 6 * N + 16)
---------------------------------------------------------------------------
Bit(m, b) == (m \div b) % 2 = 1
Moved(old, new) == (IF new[1] # old[1] THEN 1 ELSE 0) + (IF new[2] # old[2] THEN 2 ELSE 0)
                   + (IF new[1] = new[2] /\ old[1] # old[2] THEN 4 ELSE 0)
Covers(events, moved) == \A b \in {1, 2, 4} : Bit(moved, b) => Bit(events, b)
AllOn(P) == [q \in 1..NProp(P) |-> TRUE]

\* failed clauses of a list <<name, ok>>
Failed(checks) == {checks[i][1] : i \in {j \in 1..Len(checks) : ~checks[j][2]}}
Inc(cnt, i)       == [cnt EXCEPT ![i] = @ + 1]
Add(cnt, i, k)    == [cnt EXCEPT ![i] = @ + k]

\* statistics layout (1-based)
BCNB == 1  SHPASS == 2  SHNB == 3  SHCHG == 4  SHNOCHG == 5  ENT == 6  FLT == 7  NOCHG == 8
INC9 == 9  BT == 10  CH == 11  DEPTH == 12  SOLNB == 13

InitState(T) ==
  LET P == T.P IN
  [frames  |-> << [box |-> P.doms, en |-> AllOn(P), base |-> P.doms] >>,
   wake    |-> <<0, 0>>,   \* <<domain, moved bounds>> whose watchers must be in the queue when the next pass starts
   oracle  |-> BoxSize(P.doms) <= SolCap,
   sols    |-> IF BoxSize(P.doms) <= SolCap THEN Solutions(P) ELSE {},
   yielded |-> {},
   \* the depth is a maximum: on a solver object used before it starts from what the earlier call reached (depth0)
   cnt     |-> [i \in 1..13 |-> IF i = 12 /\ "depth0" \in DOMAIN T THEN T.depth0 ELSE 0],
   lvls    |-> 0,
   shAlg   |-> 0,
   shEv    |-> 0,          \* events consumed since the running shaving call started
   shOn    |-> FALSE, shBase |-> [box |-> <<>>, en |-> <<>>, base |-> <<>>], shN |-> 0,
   probe   |-> <<>>, pst |-> -1,
   hasInc  |-> FALSE, inc |-> <<>>,
   over    |-> FALSE,      \* the search stands above the configured height: the only legal next step is the error
   dead    |-> FALSE]      \* the current frame was refuted by the last pass

Cur(s) == s.frames[Len(s.frames)]
\* the engine-level half of "announces every bound it moved": the enabled constraints that watch (trigger matrix
\* recorded from the real Problem.init) a moved bound of the branched / resumed domain are queued when the pass starts
WatchersQueued(P, s, en, q0) ==
  s.wake[1] = 0 \/ \A q \in 1..NProp(P) :
     (en[q] /\ \E b \in {1, 2, 4} : Bit(s.wake[2], b) /\ Bit(P.trig[s.wake[1]][q], b)) => q0[q]
\* C07 as a state invariant of the engine: a constraint that is disabled when a pass starts can no longer be violated
DisabledAreEntailed(P, en, box) == \A q \in 1..NProp(P) : ~en[q] => EntailedOn(P, P.props[q], box)
DiffDom(a, b) == LET D == {d \in 1..Len(a) : a[d] # b[d]} IN IF D = {} THEN 0 ELSE Min(D)
Objective(P, T, x) == x[DomOf(P, T.var)] + OffOf(P, T.var)
Better(T, a, b) == IF T.mode = "min" THEN a < b ELSE a > b

---------------------------------------------------------------------------
(* One consistency pass (plain bound consistency, alg = 0).                 *)
PassBC(T, s, e) ==
  LET P    == T.P
      n    == Len(s.frames)
      fr   == Cur(s)
      live == {x \in s.sols : InBox(x, e.in)}
      ok   == e.st # 0
      off  == {q \in 1..NProp(P) : e.en[q] /\ ~e.en2[q]}
      gOn  == e.st \in {0, 1, 2} /\ ~e.trunc /\ GfpApplicable(P) /\ NonEmptyBox(e.in) /\ BoxSize(e.in) <= GfpCap
      g    == IF gOn THEN Gfp(P, e.en, e.in) ELSE <<TRUE, e.in>>
      nf   == Len(e.f)
      cnt1 == Add(Add(Add(Add(Inc(s.cnt, BCNB), FLT, nf),
                          ENT, Cardinality({i \in 1..nf : e.f[i][1] = 2})),
                      INC9, IF e.st = 0 THEN 1 ELSE 0),
                  NOCHG, Cardinality({i \in 1..nf : ~e.f[i][2] /\ ~(e.st = 0 /\ i = nf)}))
      bad  == Failed(<<
        <<"C04:unbounded-pass",        ~e.trunc>>,
        <<"C04:bounded",               nf <= PassBound(P)>>,
        <<"C03:searches-empty-box",    NonEmptyBox(e.in)>>,
        <<"C09:level",                 e.top = n - 1>>,
        <<IF s.shOn /\ s.shAlg >= 2 THEN "C08:custom-algorithm-enlarges-a-domain" ELSE "C09:restores-box",
                                       IF s.shOn /\ s.shAlg >= 2 THEN SubBox(e.in, fr.box) ELSE e.in = fr.box>>,
        <<"C08:custom-algorithm-loses-a-solution",
                                       ~(s.shOn /\ s.shAlg >= 2) \/ \A x \in s.sols : InBox(x, fr.box) => InBox(x, e.in)>>,
        <<"C07:restores-flags",        e.en = fr.en>>,
        <<"C07:disabled-but-not-entailed", ~NonEmptyBox(e.in) \/ BoxSize(e.in) > GfpCap \/ DisabledAreEntailed(P, e.en, e.in)>>,
        <<"C09:moved-bounds-not-announced-to-the-watchers", WatchersQueued(P, s, e.en, e.q0)>>,
        <<"C09:pass-keeps-level",      e.trunc \/ e.top2 = e.top>>,
        <<"C09:stack-untouched",       e.trunc \/ \A k \in 1..(n - 1) : k <= Len(e.stack) =>
                                          (e.stack[k] = s.frames[k].box /\ e.ens[k] = s.frames[k].en)>>,
        <<"C08:shrinks",               ~ok \/ e.trunc \/ (SubBox(e.out, e.in) /\ NonEmptyBox(e.out))>>,
        <<"C08:keeps-solutions",       e.trunc \/ (IF ok THEN \A x \in live : InBox(x, e.out) ELSE live = {})>>,
        <<"C01:solved-iff-ground",     ~ok \/ e.trunc \/ ((e.st = 2) <=> IsPoint(e.out))>>,
        <<IF e.d = 1 THEN "C10:nested-fixpoint" ELSE "C08:fixpoint",
                                       \A i \in 1..Len(e.probes) : e.probes[i][2] \in {1, 2} /\
                                          (e.probes[i][3] \/ P.props[e.probes[i][1] + 1].alg = "no_sub_cycle")>>,
        <<"C08:greatest-fixpoint",     ~gOn \/ ~ok \/ (g[1] /\ g[2] = e.out)>>,
        <<"C08:missed-inconsistency",  ~gOn \/ ok \/ ~g[1]>>,
        <<"C07:enabled-sound",         ~ok \/ e.trunc \/ \A q \in off : EntailedOn(P, P.props[q], e.out)>>,
        <<"C17:stats-exact",           e.trunc \/ e.stats = cnt1>>
      >>)
      fr2  == [box |-> e.out, en |-> e.en2, base |-> fr.base]
  IN << [s EXCEPT !.frames = [s.frames EXCEPT ![n] = fr2], !.cnt = cnt1, !.pst = e.st, !.dead = ~ok, !.wake = <<0, 0>>], bad >>

(* The whole shaving pass seen from outside (alg = 1); its nested events    *)
(* have already been consumed one by one.                                   *)
\* alg = 1: the shaving algorithm (C10); alg >= 2: a registered custom consistency algorithm that filters by itself and
\* calls bound consistency (the shipped Golomb one): the same demands, reported under C08
NN(e, x) == IF e.alg = 1 THEN "C10:" \o x ELSE "C08:custom-algorithm-" \o x
PassShaving(T, s, e) ==
  LET P    == T.P
      n    == Len(s.frames)
      fr   == Cur(s)
      live == {x \in s.sols : InBox(x, e.in)}
      ok   == e.st # 0
      gOn  == GfpApplicable(P) /\ NonEmptyBox(e.in) /\ BoxSize(e.in) <= GfpCap
      g    == IF gOn THEN Gfp(P, e.en, e.in) ELSE <<TRUE, e.in>>
      bad  == Failed(<<
        <<NN(e, "pass-bracket"),          s.shOn /\ n = s.shN>>,
        <<NN(e, "top-preserved"),         e.top2 = e.top /\ e.top = n - 1>>,
        <<NN(e, "input"),                 e.in = s.shBase.box /\ e.en = s.shBase.en>>,
        <<NN(e, "output-is-current"),     e.out = fr.box /\ e.en2 = fr.en>>,
        <<NN(e, "shrinks"),               ~ok \/ (SubBox(e.out, e.in) /\ NonEmptyBox(e.out))>>,
        <<NN(e, "keeps-solutions"),       IF ok THEN \A x \in live : InBox(x, e.out) ELSE live = {}>>,
        <<NN(e, "inside-bc"),             Len(e.bc) # 2 \/ (IF e.bc[1] = 0 THEN ~ok ELSE (~ok \/ SubBox(e.out, e.bc[2])))>>,
        <<NN(e, "inside-gfp"),            ~gOn \/ (IF g[1] THEN (~ok \/ SubBox(e.out, g[2])) ELSE ~ok)>>,
        <<NN(e, "stack-untouched"),       \A k \in 1..(n - 1) : k <= Len(e.stack) =>
                                          (e.stack[k] = s.frames[k].box /\ e.ens[k] = s.frames[k].en)>>,
        <<"C01:solved-iff-ground",     ~ok \/ ((e.st = 2) <=> IsPoint(e.out))>>,
        <<NN(e, "fixpoint"),              \A i \in 1..Len(e.probes) : e.probes[i][2] \in {1, 2} /\
                                          (e.probes[i][3] \/ P.props[e.probes[i][1] + 1].alg = "no_sub_cycle")>>,
        <<"C17:stats-exact",           e.stats = s.cnt>>
      >>)
  IN << [s EXCEPT !.shOn = FALSE, !.dead = ~ok, !.pst = e.st], bad >>

ShaveStart(T, s, e) ==
  LET fr == Cur(s)
      bad == Failed(<<
        <<"C09:restores-box",   e.in = fr.box>>,
        <<"C07:restores-flags", e.en = fr.en>>,
        <<"C09:moved-bounds-not-announced-to-the-watchers", WatchersQueued(T.P, s, e.en, e.q0)>>,
        <<"C03:searches-empty-box", NonEmptyBox(e.in)>> >>)
  IN << [s EXCEPT !.wake = <<0, 0>>, !.shOn = TRUE, !.shAlg = e.alg, !.shBase = fr, !.shN = Len(s.frames),
                  !.cnt = IF e.alg = 1 THEN Inc(@, SHPASS) ELSE @], bad >>

(* A branching decision (search: d = 0; shaving probe: d = 1).              *)
Branch(T, s, e) ==
  LET P   == T.P
      n   == Len(s.frames)
      cur == Cur(s)
      d   == e.dom + 1
      L   == Len(e.levels)
      okd == d \in 1..NDom(P)
      rng == [k \in 1..L |-> e.levels[k][d]]
      old == cur.box[d]
      moved == Moved(old, rng[L])
      bad == IF ~okd THEN {"C04:branch-on-nothing"} ELSE Failed(<<
        <<"C09:level",               e.top = n - 1 /\ e.top2 = e.top + L - 1>>,
        <<"C09:branch-on-instantiated", old[1] < old[2]>>,
        <<"C09:branches",            L >= 2>>,
        <<"C09:others-untouched",    \A k \in 1..L : \A j \in 1..NDom(P) : j # d => e.levels[k][j] = cur.box[j]>>,
        <<"C09:partition-nonempty",  \A k \in 1..L : rng[k][1] <= rng[k][2]>>,
        <<"C09:partition-disjoint",  \A k, j \in 1..L : k < j => (rng[k][2] < rng[j][1] \/ rng[j][2] < rng[k][1])>>,
        <<"C09:partition-cover",     UNION {rng[k][1]..rng[k][2] : k \in 1..L} = old[1]..old[2]>>,
        <<"C09:announces",           Covers(e.events, moved)>>,
        <<"C09:announces-alternative", \A k \in 1..(L - 1) : e.upd[k][1] = e.dom /\ Covers(e.upd[k][2], Moved(old, rng[k]))>>,
        <<"C07:levels-enabled-sound", \A k \in 1..L : \A q \in 1..NProp(P) :
                                         (~e.ens[k][q] /\ cur.en[q]) => EntailedOn(P, P.props[q], e.levels[k])>>,
        <<"C19:beyond-spare-levels", e.top2 + 1 <= T.cfg.height + 2>>
      >>)
      newf == SubSeq(s.frames, 1, n - 1) \o [k \in 1..L |-> [box |-> e.levels[k], en |-> e.ens[k], base |-> cur.box]]
      cnt1 == IF e.d = 0 THEN [Inc(s.cnt, CH) EXCEPT ![DEPTH] = IF e.top2 > @ THEN e.top2 ELSE @]
              ELSE Inc(s.cnt, SHNB)
  IN << [s EXCEPT !.frames = newf, !.cnt = cnt1, !.lvls = IF e.d = 0 THEN @ + (L - 1) ELSE @,
                  !.probe = cur.box, !.pst = -1, !.dead = FALSE, !.wake = IF okd THEN <<d, moved>> ELSE <<0, 0>>,
                  !.over = okd /\ (e.top2 + 1 > T.cfg.height + (IF e.d = 1 THEN 1 ELSE 0))], bad >>

VarChoice(T, s, e) ==
  LET cur == Cur(s)
      bad == IF e.d # 0 THEN {}
             ELSE IF e.dom + 1 \notin 1..NDom(T.P) THEN {"C04:nothing-to-branch-on"}
             ELSE Failed(<< <<"C09:branch-on-instantiated", cur.box[e.dom + 1][1] < cur.box[e.dom + 1][2]>> >>)
  IN << s, bad >>

(* backtrack(): the next alternative becomes current                         *)
Resume(T, s, e) ==
  LET n == Len(s.frames)
  IN IF n = 1 THEN << s, Failed(<< <<"C09:fails-iff-root", ~e.ok>> >>) >>
     ELSE
     LET saved == s.frames[n - 1]
         inProbe == e.d = 1
         \* a shaving probe that was NOT refuted must give the probed value back
         expBox == IF inProbe /\ s.pst # 0 THEN s.probe ELSE saved.box
         bad == Failed(<<
           <<"C09:fails-iff-root",   e.ok>>,
           <<"C09:level",            e.top2 = n - 2>>,
           <<IF inProbe THEN "C10:probe-restore" ELSE "C09:restores-box",  e.box = expBox>>,
           <<"C07:restores-flags",   e.en = saved.en>> >>)
         cnt1 == IF inProbe THEN Inc(Inc(s.cnt, BT), IF s.pst = 0 THEN SHCHG ELSE SHNOCHG) ELSE Inc(s.cnt, BT)
         dd == DiffDom(saved.base, e.box)
     IN << [s EXCEPT !.frames = Append(SubSeq(s.frames, 1, n - 2), [box |-> e.box, en |-> e.en, base |-> saved.base]),
                     !.cnt = cnt1, !.dead = FALSE, !.pst = -1,
                     !.wake = IF dd = 0 \/ Len(saved.base) # Len(e.box) THEN <<0, 0>> ELSE <<dd, Moved(saved.base[dd], e.box[dd])>>], bad >>

Solution(T, s, sol, stats, kind) ==
  LET P   == T.P
      box == Cur(s).box
      asg == PointOf(box)
      cnt1 == Inc(s.cnt, SOLNB)
      obj == Objective(P, T, asg)
      bad == Failed(<<
        <<"C01:ground",          IsPoint(box) /\ ~s.dead>>,
        <<"C01:in-domain",       InBox(asg, P.doms)>>,
        <<"C01:solution-vector", sol = SolVector(P, asg)>>,
        <<"C01:sat-all",         SatAll(P, asg)>>,
        <<"C02:fresh",           kind # "Y" \/ asg \notin s.yielded>>,
        <<"C03:improves",        kind # "I" \/ ~s.hasInc \/ Better(T, obj, Objective(P, T, s.inc))>>,
        \* the restart loop terminates because every incumbent is strictly better than the previous one
        <<"C04:restart-without-progress", kind # "I" \/ ~s.hasInc \/ Better(T, obj, Objective(P, T, s.inc))>>,
        <<"C17:stats-exact",     stats = cnt1>> >>)
  IN << [s EXCEPT !.yielded = @ \cup {asg}, !.cnt = cnt1, !.hasInc = (kind = "I"), !.inc = IF kind = "I" THEN asg ELSE @], bad >>

Done(T, s, e) ==
  LET bad == Failed(<<
        <<"C02:complete",              ~s.oracle \/ s.yielded = s.sols>>,
        <<"C09:exhausted",             Len(s.frames) = 1>>,
        <<"C17:stats-exact",           e.stats = s.cnt>>,
        <<"C17:conservation-backtracks", T.cfg.ca # 0 \/ e.stats[BT] = s.lvls>>,
        <<"C17:conservation-passes",   T.cfg.ca # 0 \/ e.stats[BCNB] = 1 + e.stats[CH] + e.stats[BT]>> >>)
  IN << s, bad >>

ResetEv(T, s, e) ==
  LET bad == Failed(<<
        <<"C03:reset-exact", e.box = T.P.doms /\ e.en = AllOn(T.P) /\ e.top = 0>> >>)
  IN << [s EXCEPT !.frames = << [box |-> e.box, en |-> e.en, base |-> e.box] >>, !.dead = FALSE, !.shOn = FALSE, !.wake = <<0, 0>>], bad >>

Tighten(T, s, e) ==
  LET P == T.P
      d == DomOf(P, e.var)
      incObj == e.val
      bad == Failed(<<
        <<"C03:tighten-var",          e.var = T.var /\ s.hasInc /\ e.val = Objective(P, T, s.inc)>>,
        <<"C03:tighten-others",       \A j \in 1..NDom(P) : j # d => e.box[j] = P.doms[j]>>,
        <<"C03:tighten-inside",       e.box[d][1] >= P.doms[d][1] /\ e.box[d][2] <= P.doms[d][2]>>,
        <<"C03:tighten-keeps-better", \A x \in s.sols : Better(T, Objective(P, T, x), incObj) => InBox(x, e.box)>>,
        <<"C03:tighten-excludes",     \A v \in (e.box[d][1])..(e.box[d][2]) : Better(T, v + OffOf(P, e.var), incObj)>> >>)
  IN << [s EXCEPT !.frames = << [box |-> e.box, en |-> AllOn(P), base |-> e.box] >>, !.wake = <<0, 0>>], bad >>

\* the search for a better solution begins (read from the state at its first pass): the root level, every constraint
\* enabled again, the initial domains except the objective's, which excludes the incumbent and keeps everything better
Restart(T, s, e) ==
  LET P == T.P
      d == DomOf(P, e.var)
      incObj == e.val
      bad == Failed(<<
        <<"C03:reset-exact",          e.en = AllOn(P) /\ e.top = 0>>,
        <<"C03:tighten-var",          e.var = T.var /\ s.hasInc /\ e.val = Objective(P, T, s.inc)>>,
        <<"C03:tighten-others",       \A j \in 1..NDom(P) : j # d => e.box[j] = P.doms[j]>>,
        <<"C03:tighten-inside",       e.box[d][1] >= P.doms[d][1] /\ e.box[d][2] <= P.doms[d][2]>>,
        <<"C03:tighten-keeps-better", \A x \in s.sols : Better(T, Objective(P, T, x), incObj) => InBox(x, e.box)>>,
        <<"C03:tighten-excludes",     \A v \in (e.box[d][1])..(e.box[d][2]) : Better(T, v + OffOf(P, e.var), incObj)>> >>)
  IN << [s EXCEPT !.frames = << [box |-> e.box, en |-> e.en, base |-> e.box] >>, !.dead = FALSE, !.shOn = FALSE,
                  !.wake = <<0, 0>>], bad >>

SearchEnd(T, s, e) ==     \* solve_one returned None inside optimize
  << [s EXCEPT !.cnt = s.cnt], Failed(<< <<"C17:stats-exact", e.stats = s.cnt>> >>) >>

\* C01 on a RETURNED vector, read by itself (not through the incumbent the search stood on): the views of one shared
\* domain agree on its value, that value is inside the declared domain, every posted constraint holds
ViewsAgree(P, sol) == /\ Len(sol) = Len(P.vidx)
                      /\ \A v, w \in 1..Len(P.vidx) : P.vidx[v] = P.vidx[w] => sol[v] - P.voff[v] = sol[w] - P.voff[w]
ReturnedAsg(P, sol, dflt) == [d \in 1..Len(P.doms) |->
                          IF \E v \in 1..Len(P.vidx) : P.vidx[v] = d - 1
                          THEN LET v == CHOOSE v \in 1..Len(P.vidx) : P.vidx[v] = d - 1 IN sol[v] - P.voff[v]
                          ELSE dflt[d]]
OptReturn(T, s, e) ==
  LET P == T.P
      objs == {Objective(P, T, x) : x \in s.sols}
      dflt == IF s.hasInc THEN s.inc ELSE PointOf(P.doms)
      rasg == ReturnedAsg(P, e.sol, dflt)
      best == IF objs = {} THEN 0 ELSE IF T.mode = "min" THEN Min(objs) ELSE Max(objs)
      bad == Failed(<<
        <<"C01:returned-views-differ-by-their-offsets", e.none \/ ViewsAgree(P, e.sol)>>,
        <<"C01:returned-in-domain",  e.none \/ ~ViewsAgree(P, e.sol) \/ InBox(rasg, P.doms)>>,
        <<"C01:returned-sat-all",    e.none \/ ~ViewsAgree(P, e.sol) \/ SatAll(P, rasg)>>,
        <<"C03:none-iff-infeasible", ~s.oracle \/ (e.none <=> s.sols = {})>>,
        <<"C03:returns-incumbent",   IF e.none THEN ~s.hasInc ELSE s.hasInc /\ e.sol = SolVector(P, s.inc)>>,
        <<"C03:feasible",            e.none \/ ~s.hasInc \/ SatAll(P, s.inc)>>,
        <<"C03:optimal",             ~s.oracle \/ e.none \/ ~s.hasInc \/ objs = {} \/ Objective(P, T, s.inc) = best>>,
        <<"C17:stats-exact",         e.stats = s.cnt>> >>)
  IN << s, bad >>

\* a deliberate report of the library (a raise statement of its own, whatever its wording); the recorder tells it from
\* an error that merely happens inside the library (origin "other") and from a failure of the recorder itself
IsCapacityError(e) == e.origin = "raise"
                      \/ (e.type = "IndexError" /\ Len(e.msg) >= 26 /\ SubSeq(e.msg, 1, 26) = "The stack of choice points")
Raised(T, s, e) ==
  IF e.origin = "harness" THEN << s, {"XX:harness-raised-" \o e.type} >>
  ELSE IF IsCapacityError(e) THEN << s, {} >>      \* reporting a full stack is the behaviour C19 asks for
  ELSE << s, {IF e.type = "IndexError" THEN "C16:index-error" ELSE "C04:raised-" \o e.type,
              \* a call that ends in an unexpected exception neither enumerates (C02) nor returns an optimum (C03)
              IF T.mode = "solve" THEN "C02:raised-" \o e.type ELSE "C03:raised-" \o e.type} >>

Step0(T, s, e) ==
  IF s.over /\ ~(e.k = "X" /\ IsCapacityError(e)) THEN << [s EXCEPT !.over = FALSE], {"C19:continues-above-the-configured-height"} >> ELSE
  CASE e.k = "P" /\ e.alg = 0 -> PassBC(T, s, e)
    [] e.k = "P" /\ e.alg >= 1 -> PassShaving(T, s, e)
    [] e.k = "S" -> ShaveStart(T, s, e)
    [] e.k = "V" -> VarChoice(T, s, e)
    [] e.k = "B" -> Branch(T, s, e)
    [] e.k = "R" -> Resume(T, s, e)
    [] e.k = "Y" -> Solution(T, s, e.sol, e.stats, "Y")
    [] e.k = "I" -> IF e.none THEN SearchEnd(T, s, e) ELSE Solution(T, s, e.sol, e.stats, "I")
    [] e.k = "D" -> Done(T, s, e)
    [] e.k = "Z" -> ResetEv(T, s, e)
    [] e.k = "T" -> Tighten(T, s, e)
    [] e.k = "N" -> Restart(T, s, e)
    [] e.k = "O" -> OptReturn(T, s, e)
    [] e.k = "X" -> Raised(T, s, e)
    [] e.k = "H" -> << s, {"C04:hung"} >>
    \* a further call on a solver object that was used before: its counters either go on from the totals of the earlier
    \* call (cumulative statistics) or all start again from zero (statistics per call); a mixture reports numbers that
    \* are neither "what happened since the solver was made" nor "what happened in this call"
    [] e.k = "K" -> << s, Failed(<< <<"C17:counters-neither-cumulative-nor-per-call",
                                     e.base = e.prior \/ \A i \in 1..Len(e.base) : e.base[i] = 0>> >>) >>
    [] OTHER -> << s, {"XX:unknown-event"} >>

\* every event inside a shaving call counts against the bound of that call (reported once, when the bound is crossed)
Step(T, s, e) ==
  LET r == Step0(T, s, e)
      n == IF s.shOn /\ r[1].shOn THEN s.shEv + 1 ELSE 0
  IN << [r[1] EXCEPT !.shEv = n],
        r[2] \cup (IF s.shAlg = 1 /\ n = ShaveBound(T.P) + 1 THEN {"C04:shaving-call-exceeds-its-bound"} ELSE {}) >>
=============================================================================
