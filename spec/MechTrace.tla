------------------------------ MODULE MechTrace ------------------------------
(***************************************************************************)
(* Strict binding of Layer B: mechanism-level event traces of the real     *)
(* engine (every queue pop, every filter result, the queue after every     *)
(* wake-up, every branch, every backtrack) are replayed through the SAME   *)
(* pure operators NucsMech's actions are made of (Pop, WriteBack,          *)
(* AddProps, ChooseVar, BranchOf, MinValue/MaxValue).  The propagators'    *)
(* outputs are taken as logged (their contract is C05/C14's business);     *)
(* everything the engine derives from them must be what the mirror         *)
(* derives.  A mismatch is DRIFT - the mirror is stale - never a verdict   *)
(* on a property.                                                          *)
(***************************************************************************)
EXTENDS MechOps

Traces == ndJsonDeserialize(IOEnv.MTRACES)

M0(T) == [doms |-> << T.P.doms >>, ne |-> << AllTrue(NProp(T.P)) >>, upd |-> << >>, trig |-> AllTrue(NProp(T.P)),
          prev |-> 0, cur |-> 0, bcst |-> -1, stats |-> [i \in 1..13 |-> 0],
          shN |-> 0, shBound |-> 0, shStart |-> 0, shMain |-> 1, pend |-> <<0, 0>>]
MTop(m) == Len(m.doms)
MBox(m) == m.doms[MTop(m)]
SInc(st, i) == [st EXCEPT ![i] = @ + 1]
Dec2(P0) == P0.cfg.decision
PX(T) == [doms |-> T.P.doms, vidx |-> T.P.vidx, voff |-> T.P.voff, props |-> T.P.props, trig |-> T.P.trig,
          cfg |-> T.cfgx]          \* the problem with the full configuration, as NucsMech expects it
DecFromM(P, start) == SelectSeq(P.cfg.decision, LAMBDA x : x >= start)

MStep(T, m, e) ==
  LET P == PX(T) IN
  CASE e.k = "p0" -> << [m EXCEPT !.prev = 0, !.stats = SInc(@, BCNB), !.bcst = -1], {} >>
    [] e.k = "q" ->
        LET r  == Pop(m.trig, m.prev)
            t2 == IF r = 0 THEN m.trig ELSE [m.trig EXCEPT ![r] = FALSE]
            m2 == [m EXCEPT !.trig = t2, !.cur = r, !.prev = IF r = 0 THEN @ ELSE r,
                            !.bcst = IF r = 0 THEN (IF IsPoint(MBox(m)) THEN 2 ELSE 1) ELSE @]
        IN << m2, (IF e.r # r - 1 THEN {"DRIFT:pop-index"} ELSE {}) \cup (IF e.trig # t2 THEN {"DRIFT:pop-queue"} ELSE {}) >>
    [] e.k = "f" ->
        IF m.cur = 0 THEN << m, {"DRIFT:filter-without-pop"} >>
        ELSE LET c   == P.props[m.cur]
                 st1 == SInc(m.stats, FLT)
             IN IF e.st = 0 THEN << [m EXCEPT !.stats = SInc(st1, INC9), !.bcst = 0], {} >>
                ELSE LET ne2 == IF e.st = 2 THEN [m.ne EXCEPT ![MTop(m)][m.cur] = FALSE] ELSE m.ne
                         st2 == IF e.st = 2 THEN SInc(st1, ENT) ELSE st1
                         w   == WriteBack(P, c, e.out, 1, MBox(m), m.trig, ne2[MTop(m)], FALSE)
                         st3 == IF ~w.ok THEN SInc(st2, INC9) ELSE IF w.changed THEN st2 ELSE SInc(st2, NOCHG)
                     IN << [m EXCEPT !.doms[MTop(m)] = w.box, !.ne = ne2, !.trig = w.trig, !.stats = st3,
                                     !.bcst = IF ~w.ok THEN 0 ELSE @], {} >>
    [] e.k = "P" /\ e.alg = 0 ->
        LET main == MTop(m) = m.shN
            m2 == [m EXCEPT !.shMain = IF main THEN m.bcst ELSE @] IN
        << m2, (IF e.trunc THEN {} ELSE
                (IF e.st # m.bcst THEN {"DRIFT:pass-status"} ELSE {})
                \cup (IF e.out # MBox(m) THEN {"DRIFT:pass-domains"} ELSE {})
                \cup (IF e.en2 # m.ne[MTop(m)] THEN {"DRIFT:pass-flags"} ELSE {})
                \cup (IF e.q # m.trig THEN {"DRIFT:pass-queue"} ELSE {})
                \cup (IF e.stats # m.stats THEN {"DRIFT:pass-statistics"} ELSE {})) >>
    [] e.k = "P" /\ e.alg = 1 ->
        LET want == IF m.shMain \in {0, 2} THEN m.shMain ELSE 1 IN
        << [m EXCEPT !.bcst = want, !.shN = 0],
           (IF e.st # want THEN {"DRIFT:shaving-status"} ELSE {})
           \cup (IF e.out # MBox(m) THEN {"DRIFT:shaving-domains"} ELSE {})
           \cup (IF e.en2 # m.ne[MTop(m)] THEN {"DRIFT:shaving-flags"} ELSE {})
           \cup (IF e.q # m.trig THEN {"DRIFT:shaving-queue"} ELSE {})
           \cup (IF e.stats # m.stats THEN {"DRIFT:shaving-statistics"} ELSE {}) >>
    [] e.k = "S" -> << [m EXCEPT !.stats = SInc(@, SHPASS), !.shN = MTop(m), !.shBound = 0, !.shStart = 0, !.shMain = 1], {} >>
    [] e.k = "V" ->
        LET want == IF e.d = 0 THEN ChooseVar(P, MBox(m)) ELSE FirstNI(MBox(m), DecFromM(P, m.shStart)) IN
        << m, IF e.dom # want THEN {"DRIFT:variable-choice"} ELSE {} >>
    [] e.k = "B" ->
        IF e.dom + 1 \notin 1..NDom(P) THEN << m, {"DRIFT:branch-domain"} >>
        ELSE LET res == IF e.d = 0 THEN BranchOf(P, MBox(m), e.dom + 1)
                        ELSE IF m.shBound = 1 THEN MaxValue(MBox(m), e.dom + 1) ELSE MinValue(MBox(m), e.dom + 1)
                 n   == MTop(m)
                 m2  == [m EXCEPT !.doms = SubSeq(m.doms, 1, n - 1) \o res.levels,
                                  !.ne = SubSeq(m.ne, 1, n - 1) \o [k \in 1..Len(res.levels) |-> m.ne[n]],
                                  !.upd = m.upd \o res.upd,
                                  !.stats = IF e.d = 1 THEN SInc(@, SHNB) ELSE @,
                                  !.pend = <<e.dom, res.events>>]
             IN << m2, (IF e.levels # res.levels THEN {"DRIFT:branch-levels"} ELSE {})
                       \cup (IF e.upd # res.upd THEN {"DRIFT:branch-recorded-events"} ELSE {})
                       \cup (IF e.events # res.events THEN {"DRIFT:branch-returned-events"} ELSE {}) >>
    [] e.k = "a" ->
        LET t2 == AddProps(P, m.trig, m.ne[MTop(m)], e.dom + 1, e.events)
            st2 == IF e.d = 0 THEN [SInc(m.stats, CH) EXCEPT ![DEPTH] = IF MTop(m) - 1 > @ THEN MTop(m) - 1 ELSE @] ELSE m.stats
        IN << [m EXCEPT !.trig = t2, !.stats = st2], IF e.trig # t2 THEN {"DRIFT:wake-up-queue"} ELSE {} >>
    [] e.k = "R" ->
        IF MTop(m) = 1 THEN << m, IF e.ok THEN {"DRIFT:backtrack-at-root"} ELSE {} >>
        ELSE LET n == MTop(m)
                 d == m.upd[n - 1][1] + 1
                 inProbe == e.d = 1
                 has == m.bcst = 0
                 below == IF ~inProbe \/ has THEN m.doms[n - 1]
                          ELSE IF m.shBound = 1 THEN [m.doms[n - 1] EXCEPT ![d] = <<@[1], @[2] + 1>>]
                          ELSE [m.doms[n - 1] EXCEPT ![d] = <<@[1] - 1, @[2]>>]
                 t2 == AddProps(P, m.trig, m.ne[n - 1], d, m.upd[n - 1][2])
                 st2 == IF inProbe THEN SInc(SInc(m.stats, BT), IF has THEN SHCHG ELSE SHNOCHG) ELSE SInc(m.stats, BT)
                 dom0 == m.upd[n - 1][1]
                 m2 == [m EXCEPT !.doms = Append(SubSeq(m.doms, 1, n - 2), below), !.ne = SubSeq(m.ne, 1, n - 1),
                                 !.upd = SubSeq(m.upd, 1, n - 2), !.trig = t2, !.stats = st2,
                                 !.shBound = IF inProbe /\ ~has THEN (IF m.shBound = 1 THEN 0 ELSE 1) ELSE @,
                                 !.shStart = IF inProbe THEN (IF ~has /\ m.shBound = 1 THEN dom0 + 1 ELSE dom0) ELSE @]
             IN << m2, (IF ~e.ok THEN {"DRIFT:backtrack-refused"} ELSE {})
                       \cup (IF e.box # below THEN {"DRIFT:backtrack-domains"} ELSE {})
                       \cup (IF e.en # m.ne[n - 1] THEN {"DRIFT:backtrack-flags"} ELSE {})
                       \cup (IF e.q # t2 THEN {"DRIFT:backtrack-queue"} ELSE {}) >>
    [] e.k = "Y" ->
        LET st2 == SInc(m.stats, SOLNB) IN
        << [m EXCEPT !.stats = st2], (IF e.sol # SolVector(P, PointOf(MBox(m))) THEN {"DRIFT:solution-vector"} ELSE {})
                                      \cup (IF e.stats # st2 THEN {"DRIFT:statistics-at-yield"} ELSE {}) >>
    [] e.k = "I" ->
        IF e.none THEN << m, IF e.stats # m.stats THEN {"DRIFT:statistics-at-exhaustion"} ELSE {} >>
        ELSE LET st2 == SInc(m.stats, SOLNB) IN
             << [m EXCEPT !.stats = st2], (IF e.sol # SolVector(P, PointOf(MBox(m))) THEN {"DRIFT:solution-vector"} ELSE {})
                                           \cup (IF e.stats # st2 THEN {"DRIFT:statistics-at-incumbent"} ELSE {}) >>
    [] e.k = "Z" ->
        << [m EXCEPT !.doms = << P.doms >>, !.ne = << AllTrue(NProp(P)) >>, !.upd = << >>, !.trig = AllTrue(NProp(P)), !.shN = 0],
           IF e.box # P.doms THEN {"DRIFT:reset-domains"} ELSE {} >>
    [] e.k = "T" ->
        LET d == DomOf(P, e.var)
            root == IF e.dir = "min" THEN [P.doms EXCEPT ![d] = <<@[1], e.val - 1 - OffOf(P, e.var)>>]
                    ELSE [P.doms EXCEPT ![d] = <<e.val + 1 - OffOf(P, e.var), @[2]>>]
        IN << [m EXCEPT !.doms = << root >>], IF e.box # root THEN {"DRIFT:tightened-domains"} ELSE {} >>
    [] e.k \in {"D", "O"} -> << m, IF e.stats # m.stats THEN {"DRIFT:final-statistics"} ELSE {} >>
    [] e.k \in {"X", "H"} -> << m, {} >>
    [] OTHER -> << m, {"DRIFT:unknown-event"} >>

VARIABLES tid, l, mm
mvars == <<tid, l, mm>>
MInit == tid = 1 /\ l = 1 /\ mm = M0(Traces[1])
MSkip == IF tid < Len(Traces) THEN tid' = tid + 1 /\ l' = 1 /\ mm' = M0(Traces[tid + 1])
         ELSE PrintT(<<"JUDGED", tid>>) /\ tid' = tid + 1 /\ l' = 1 /\ mm' = mm
MNext ==
  /\ tid <= Len(Traces)
  /\ LET T == Traces[tid] IN
     IF l > Len(T.ev) THEN MSkip
     ELSE LET r == MStep(T, mm, T.ev[l]) IN
          IF r[2] = {} THEN tid' = tid /\ l' = l + 1 /\ mm' = r[1]
          ELSE (\A c \in r[2] : PrintT(<<"VERDICT", T.id, l, c>>)) /\ MSkip
MSpec == MInit /\ [][MNext]_mvars
=============================================================================
