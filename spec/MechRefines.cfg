SPECIFICATION RSpec
CHECK_DEADLOCK FALSE
INVARIANT Refines
INVARIANT FramesAgree
INVARIANT CountsAgree
