------------------------------ MODULE MPParent ------------------------------
(***************************************************************************)
(* The parent loop of the multiprocessing solver as a pure step function,  *)
(* shared by MPSolver (all interleavings) and MPTrace (recorded runs).     *)
(*   st = [nb, yielded, best, slot]      m = <<worker, message number>>    *)
(***************************************************************************)
EXTENDS Integers, Sequences

MsgCount(streams, w) == Len(streams[w]) + 1          \* solutions + completion marker
MarkerOf(streams, m) == m[2] = MsgCount(streams, m[1])
ValOf(streams, m)    == streams[m[1]][m[2]]
BetterVal(mode, a, b) == IF mode = "min" THEN a < b ELSE a > b

ParentInit(streams) == [nb |-> Len(streams), yielded |-> << >>, best |-> << >>, slot |-> [w \in 1..Len(streams) |-> 0]]

ParentStep(mode, streams, st, m) ==
  LET st1 == [st EXCEPT !.slot[m[1]] = m[2]] IN
  IF MarkerOf(streams, m) THEN [st1 EXCEPT !.nb = @ - 1]
  ELSE IF mode = "solve" THEN [st1 EXCEPT !.yielded = Append(@, m)]
  ELSE IF st.best = << >> \/ BetterVal(mode, ValOf(streams, m), ValOf(streams, st.best)) THEN [st1 EXCEPT !.best = m]
  ELSE st1
=============================================================================
