------------------------------ MODULE NucsMech ------------------------------
(***************************************************************************)
(* Layer B - the MECHANISM of the NuCS engine, mirrored action by action:  *)
(*                                                                         *)
(*   bound_consistency_algorithm  Filter (pop + compute_domains + write-   *)
(*                                back + wake-ups), BCReturn               *)
(*   solve_one                    Search (status dispatch), Branch, Back   *)
(*   value / variable heuristics  BranchOf / ChooseVar (all 5 x 4)         *)
(*   choice_points                CpPut, backtrack                         *)
(*   BacktrackSolver.solve        Yield, Resume                            *)
(*   BacktrackSolver.optimize     Incumbent (reset + tighten), OptReturn   *)
(*   shaving_consistency_algorithm ShLoop, ShProbe, ShJudge                *)
(*                                                                         *)
(* Propagators are taken from Constraints (contract level): the exact hull *)
(* for the bound-consistent ones, AffineEqRound for affine_eq.  Whether a  *)
(* propagator notices entailment is left open (both answers explored).     *)
(* Static data (sorted constraint order, trigger matrix) is NOT re-derived *)
(* here: families are exported from the real Problem.init() so that the    *)
(* model checker runs on the very arrays the engine uses.                  *)
(*                                                                         *)
(* The pure operators (Pop, WriteBack, AddProps, ChooseVar, BranchOf,      *)
(* BacktrackOf) are shared with MechTrace.tla, which validates strict      *)
(* event traces of the real engine against them.                           *)
(***************************************************************************)
EXTENDS MechOps

Family == ndJsonDeserialize(IOEnv.FAMILY)

---------------------------------------------------------------------------
VARIABLES P,        \* problem + configuration (constant along a behaviour)
          doms,     \* shr_domains_stack[0..top]   (sequence, last = top)
          ne,       \* not_entailed_propagators_stack[0..top]
          upd,      \* dom_update_stack[0..top-1]
          trig,     \* triggered_propagators
          prev,     \* previous propagator of the running pass (0 = none)
          pc,       \* control point
          ret,      \* who called the running bound-consistency pass
          bcst,     \* status of the last finished pass
          stats,    \* the 13 counters
          yielded,  \* solutions delivered so far (sequence of shared-domain assignments)
          best,     \* optimisation: incumbent (<<>> = none)
          sh,       \* shaving loop state
          g         \* ghost: observed counts and the current pass's input
vars == <<P, doms, ne, upd, trig, prev, pc, ret, bcst, stats, yielded, best, sh, g>>

Top == Len(doms)
Box == doms[Top]
Stat(i) == [stats EXCEPT ![i] = @ + 1]
Ghost0 == [cnt |-> [i \in 1..13 |-> 0], fpass |-> 0, lvls |-> 0, passIn |-> <<>>, passEn |-> <<>>, shIn |-> <<>>, call |-> 1]
Sh0 == [bound |-> 0, has |-> TRUE, start |-> 0, dom |-> -1, base |-> <<>>]

Init ==
  /\ P \in {Family[i] : i \in 1..Len(Family)}
  /\ doms = << P.doms >> /\ ne = << AllTrue(NProp(P)) >> /\ upd = << >>
  /\ trig = AllTrue(NProp(P)) /\ prev = 0
  /\ pc = "consistency" /\ ret = "search" /\ bcst = -1
  /\ stats = [i \in 1..13 |-> 0] /\ yielded = << >> /\ best = << >>
  /\ sh = Sh0 /\ g = Ghost0

(* ---- solve_one: call the consistency algorithm ---- *)
CallConsistency ==
  /\ pc = "consistency"
  /\ IF P.cfg.ca = 0
     THEN /\ pc' = "bc" /\ ret' = "search" /\ prev' = 0 /\ stats' = Stat(BCNB)
          /\ g' = [g EXCEPT !.fpass = 0, !.passIn = Box, !.passEn = ne[Top], !.cnt = Inc(@, BCNB)]
          /\ UNCHANGED sh
     ELSE /\ pc' = "shloop" /\ stats' = Stat(SHPASS)
          /\ sh' = [Sh0 EXCEPT !.base = Box]
          /\ g' = [g EXCEPT !.shIn = Box, !.cnt = Inc(@, SHPASS)]
          /\ UNCHANGED <<ret, prev>>
  /\ UNCHANGED <<P, doms, ne, upd, trig, bcst, yielded, best>>

(* ---- one iteration of the bound-consistency loop ---- *)
\* P.cfg.sched = 1: the "schedules" quantifier of C08 - ANY triggered propagator may be executed next (every
\* wake-up order is explored); 0: the order of the code (lowest index first, the previous one last)
Candidates == IF P.cfg.sched = 1 THEN {p \in 1..Len(trig) : trig[p]} ELSE {Pop(trig, prev)} \ {0}
BCReturn ==
  /\ pc = "bc" /\ Candidates = {}
  /\ bcst' = IF IsPoint(Box) THEN 2 ELSE 1
  /\ pc' = ret
  /\ UNCHANGED <<P, doms, ne, upd, trig, prev, ret, stats, yielded, best, sh, g>>

Filter ==
  /\ pc = "bc"
  /\ \E r \in Candidates :
     /\ r # 0
     /\ LET c    == P.props[r]
            t1   == [trig EXCEPT ![r] = FALSE]
            view == ViewBox(P, c, Box)
        IN \E res \in Outcomes(P, c, view) :
           LET st1 == Stat(FLT)
               g1  == [g EXCEPT !.fpass = @ + 1, !.cnt = Inc(@, FLT)] IN
           IF res[1] = 0
           THEN /\ stats' = [st1 EXCEPT ![INC9] = @ + 1] /\ g' = [g1 EXCEPT !.cnt = Inc(@, INC9)]
                /\ trig' = t1 /\ prev' = r /\ bcst' = 0 /\ pc' = ret
                /\ UNCHANGED <<doms, ne>>
           ELSE LET ne2 == IF res[1] = 2 THEN [ne EXCEPT ![Top][r] = FALSE] ELSE ne
                    st2 == IF res[1] = 2 THEN [st1 EXCEPT ![ENT] = @ + 1] ELSE st1
                    g2  == IF res[1] = 2 THEN [g1 EXCEPT !.cnt = Inc(@, ENT)] ELSE g1
                    w   == WriteBack(P, c, res[2], 1, Box, t1, ne2[Top], FALSE)
                IN /\ doms' = [doms EXCEPT ![Top] = w.box] /\ ne' = ne2 /\ trig' = w.trig /\ prev' = r
                   /\ IF ~w.ok
                      THEN /\ stats' = [st2 EXCEPT ![INC9] = @ + 1] /\ g' = [g2 EXCEPT !.cnt = Inc(@, INC9)]
                           /\ bcst' = 0 /\ pc' = ret
                      ELSE /\ stats' = IF w.changed THEN st2 ELSE [st2 EXCEPT ![NOCHG] = @ + 1]
                           /\ g' = IF w.changed THEN g2 ELSE [g2 EXCEPT !.cnt = Inc(@, NOCHG)]
                           /\ bcst' = bcst /\ pc' = "bc"
  /\ UNCHANGED <<P, upd, ret, yielded, best, sh>>

(* ---- solve_one: dispatch on the status ---- *)
SearchBound ==
  /\ pc = "search" /\ bcst = 2
  /\ stats' = Stat(SOLNB) /\ g' = [g EXCEPT !.cnt = Inc(@, SOLNB)]
  /\ pc' = "solution"
  /\ UNCHANGED <<P, doms, ne, upd, trig, prev, ret, bcst, yielded, best, sh>>

Push(res) ==   \* the value heuristic's cp_put(s): alternatives below, branch taken on top
  /\ doms' = SubSeq(doms, 1, Top - 1) \o res.levels
  /\ ne'   = SubSeq(ne, 1, Top - 1) \o [k \in 1..Len(res.levels) |-> ne[Top]]
  /\ upd'  = upd \o res.upd

SearchBranch ==
  /\ pc = "search" /\ bcst = 1
  /\ LET d0 == ChooseVar(P, Box) IN
     IF d0 = -1 THEN pc' = "BranchOnNothing" /\ UNCHANGED <<doms, ne, upd, trig, stats, g>>
     ELSE LET res == BranchOf(P, Box, d0 + 1) IN
          IF Top - 1 + Len(res.levels) > P.cfg.height      \* solve_one checks the height right after the heuristic
          THEN pc' = "CapacityError" /\ UNCHANGED <<doms, ne, upd, trig, stats, g>>
          ELSE /\ Push(res)
               /\ trig' = AddProps(P, trig, ne[Top], d0 + 1, res.events)
               /\ stats' = [Stat(CH) EXCEPT ![DEPTH] = IF Top - 2 + Len(res.levels) > @ THEN Top - 2 + Len(res.levels) ELSE @]
               /\ g' = [g EXCEPT !.lvls = @ + Len(res.levels) - 1,
                                 !.cnt = [Inc(@, CH) EXCEPT ![DEPTH] = IF Top - 2 + Len(res.levels) > @ THEN Top - 2 + Len(res.levels) ELSE @]]
               /\ pc' = "consistency"
  /\ UNCHANGED <<P, prev, ret, bcst, yielded, best, sh>>

\* choice_points.backtrack
BacktrackTo(nextpc, failpc) ==
  IF Top = 1 THEN pc' = failpc /\ UNCHANGED <<doms, ne, upd, trig, stats, g>>
  ELSE /\ doms' = SubSeq(doms, 1, Top - 1) /\ ne' = SubSeq(ne, 1, Top - 1) /\ upd' = SubSeq(upd, 1, Top - 2)
       /\ trig' = AddProps(P, trig, ne[Top - 1], upd[Top - 1][1] + 1, upd[Top - 1][2])
       /\ stats' = Stat(BT) /\ g' = [g EXCEPT !.cnt = Inc(@, BT)]
       /\ pc' = nextpc

SearchFail ==
  /\ pc = "search" /\ bcst = 0
  /\ BacktrackTo("consistency", "exhausted")
  /\ UNCHANGED <<P, prev, ret, bcst, yielded, best, sh>>

(* ---- BacktrackSolver.solve(): yield, then backtrack to resume ---- *)
Yield ==
  /\ pc = "solution" /\ P.cfg.mode = "solve"
  /\ yielded' = Append(yielded, PointOf(Box))
  /\ pc' = "resume"
  /\ UNCHANGED <<P, doms, ne, upd, trig, prev, ret, bcst, stats, best, sh, g>>
ResumeEnum ==
  /\ pc = "resume"
  /\ BacktrackTo("consistency", "done")
  /\ UNCHANGED <<P, prev, ret, bcst, yielded, best, sh>>
Exhausted ==
  /\ pc = "exhausted" /\ P.cfg.mode = "solve"
  /\ pc' = "done"
  /\ UNCHANGED <<P, doms, ne, upd, trig, prev, ret, bcst, stats, yielded, best, sh, g>>

(* ---- BacktrackSolver.optimize(): incumbent, reset, tighten ---- *)
ObjDom == DomOf(P, P.cfg.var)
Incumbent ==
  /\ pc = "solution" /\ P.cfg.mode \in {"min", "max"}
  /\ LET sol == PointOf(Box)
         val == sol[ObjDom] + OffOf(P, P.cfg.var)
         root == IF P.cfg.mode = "min"
                 THEN [P.doms EXCEPT ![ObjDom] = <<@[1], val - 1 - OffOf(P, P.cfg.var)>>]
                 ELSE [P.doms EXCEPT ![ObjDom] = <<val + 1 - OffOf(P, P.cfg.var), @[2]>>]
     IN /\ best' = sol
        /\ yielded' = Append(yielded, sol)          \* history of incumbents
        /\ doms' = << root >> /\ ne' = << AllTrue(NProp(P)) >> /\ upd' = << >>
        /\ trig' = AllTrue(NProp(P))
        /\ pc' = IF root[ObjDom][1] > root[ObjDom][2] THEN "done" ELSE "consistency"
  /\ UNCHANGED <<P, prev, ret, bcst, stats, sh, g>>
OptExhausted ==
  /\ pc = "exhausted" /\ P.cfg.mode \in {"min", "max"}
  /\ pc' = "done"
  /\ UNCHANGED <<P, doms, ne, upd, trig, prev, ret, bcst, stats, yielded, best, sh, g>>

(* ---- shaving_consistency_algorithm ---- *)
ShReturn(status) == bcst' = status /\ pc' = "search"
DecFrom(start) == SelectSeq(Dec(P), LAMBDA x : x >= start)
ShLoop ==
  /\ pc = "shloop"
  /\ IF sh.start >= NDom(P) THEN ShReturn(1) /\ UNCHANGED <<stats, g, sh, ret, prev>>
     ELSE IF sh.has
     THEN /\ pc' = "bc" /\ ret' = "shmain" /\ prev' = 0 /\ stats' = Stat(BCNB)
          /\ g' = [g EXCEPT !.fpass = 0, !.passIn = Box, !.passEn = ne[Top], !.cnt = Inc(@, BCNB)]
          /\ UNCHANGED <<sh, bcst>>
     ELSE pc' = "shpick" /\ UNCHANGED <<stats, g, sh, ret, prev, bcst>>
  /\ UNCHANGED <<P, doms, ne, upd, trig, yielded, best>>
ShMain ==      \* the main pass of the loop returned
  /\ pc = "shmain"
  /\ IF bcst # 1 THEN pc' = "search" ELSE pc' = "shpick"
  /\ UNCHANGED <<P, doms, ne, upd, trig, prev, ret, bcst, stats, yielded, best, sh, g>>
ShPick ==
  /\ pc = "shpick"
  /\ LET d0 == FirstNI(Box, DecFrom(sh.start)) IN
     IF d0 = -1 THEN ShReturn(1) /\ UNCHANGED <<doms, ne, upd, trig, stats, g, sh, ret, prev>>
     ELSE LET res == IF sh.bound = 1 THEN MaxValue(Box, d0 + 1) ELSE MinValue(Box, d0 + 1)
              ev  == res.events      \* min/max_value always announce GROUND; shave_bound's extra OR is a no-op
          IN IF FALSE     \* a probe may use one of the two spare levels: no capacity error here
             THEN pc' = "CapacityError" /\ UNCHANGED <<doms, ne, upd, trig, stats, g, sh, ret, prev, bcst>>
             ELSE /\ Push(res)
                  /\ trig' = AddProps(P, trig, ne[Top], d0 + 1, ev)
                  /\ sh' = [sh EXCEPT !.dom = d0]
                  /\ pc' = "bc" /\ ret' = "shprobe" /\ prev' = 0
                  /\ stats' = [Stat(SHNB) EXCEPT ![BCNB] = @ + 1]
                  /\ g' = [g EXCEPT !.fpass = 0, !.passIn = res.levels[2], !.passEn = ne[Top],
                                    !.cnt = Inc(Inc(@, SHNB), BCNB)]
                  /\ UNCHANGED bcst
  /\ UNCHANGED <<P, yielded, best>>
ShJudge ==     \* the probe's pass returned: keep the alternative or undo, then backtrack
  /\ pc = "shprobe"
  /\ LET d   == sh.dom + 1
         has == bcst = 0
         below == IF has THEN doms[Top - 1]
                  ELSE IF sh.bound = 1 THEN [doms[Top - 1] EXCEPT ![d] = <<@[1], @[2] + 1>>]
                  ELSE [doms[Top - 1] EXCEPT ![d] = <<@[1] - 1, @[2]>>]
         nb  == IF has THEN sh.bound ELSE IF sh.bound = 1 THEN 0 ELSE 1
         ns  == IF has THEN sh.dom ELSE IF sh.bound = 1 THEN sh.dom + 1 ELSE sh.dom
     IN /\ doms' = Append(SubSeq(doms, 1, Top - 2), below)
        /\ ne' = SubSeq(ne, 1, Top - 1) /\ upd' = SubSeq(upd, 1, Top - 2)
        /\ trig' = AddProps(P, trig, ne[Top - 1], upd[Top - 1][1] + 1, upd[Top - 1][2])
        /\ stats' = [Stat(BT) EXCEPT ![IF has THEN SHCHG ELSE SHNOCHG] = @ + 1]
        /\ g' = [g EXCEPT !.cnt = Inc(Inc(@, BT), IF has THEN SHCHG ELSE SHNOCHG)]
        /\ sh' = [sh EXCEPT !.has = has, !.bound = nb, !.start = ns]
        /\ pc' = "shloop"
  /\ UNCHANGED <<P, prev, ret, bcst, yielded, best>>

(* ---- a further call on the SAME solver object (P.cfg.calls = 2) ---- *)
\* BacktrackSolver.solve() / optimize() begin with restart(): root level, initial domains, every constraint enabled
\* and queued - a call never continues the search of an earlier call (repo commit 1385008; before it the second call
\* started from the leftover stacks and queue: mutated-spec control "second-call-without-restart").  The counters
\* are observed relative to the start of the call (the harness zeroes them in between), hence stats and ghost restart.
CallAgain ==
  /\ pc = "done" /\ P.cfg.calls = 2 /\ g.call = 1
  /\ doms' = << P.doms >> /\ ne' = << AllTrue(NProp(P)) >> /\ upd' = << >> /\ trig' = AllTrue(NProp(P))
  /\ prev' = 0 /\ pc' = "consistency" /\ ret' = "search" /\ bcst' = -1
  /\ stats' = [i \in 1..13 |-> 0] /\ yielded' = << >> /\ best' = << >> /\ sh' = Sh0
  /\ g' = [Ghost0 EXCEPT !.call = 2]
  /\ UNCHANGED P

Next == CallAgain \/ CallConsistency \/ BCReturn \/ Filter \/ SearchBound \/ SearchBranch \/ SearchFail
        \/ Yield \/ ResumeEnum \/ Exhausted \/ Incumbent \/ OptExhausted
        \/ ShLoop \/ ShMain \/ ShPick \/ ShJudge
Spec == Init /\ [][Next]_vars
FairSpec == Spec /\ WF_vars(Next)

---------------------------------------------------------------------------
(* Reachability witnesses (vacuity guards, harness/controls.py): each of    *)
(* these "invariants" MUST be violated on the family named in the control;  *)
(* otherwise the invariants whose antecedent it is would hold vacuously.    *)
Never_Solution      == pc # "solution"
Never_Done          == pc # "done"
Never_CapacityError == pc # "CapacityError"
Never_Disabled      == \A k \in 1..Len(ne) : \A q \in 1..Len(ne[k]) : ne[k][q]
Never_Incumbent     == best = << >>
Never_Backtrack     == stats[10] = 0
Never_ShavingShaves == stats[4] = 0
Never_PassFails     == bcst # 0
Never_ThreeLevels   == Len(doms) < 3
Never_SecondCall    == g.call = 1

---------------------------------------------------------------------------
(* Properties of the design, checked exhaustively on the families           *)
Sols == Solutions(P)
ObjOf(x) == x[ObjDom] + OffOf(P, P.cfg.var)

TypeOK ==
  /\ Len(doms) = Len(ne) /\ Len(upd) = Len(doms) - 1 /\ Len(doms) >= 1
  /\ pc \in {"consistency", "bc", "search", "solution", "resume", "exhausted", "done", "shloop", "shmain",
             "shpick", "shprobe", "BranchOnNothing", "CapacityError"}

\* C01: whatever is reported as a solution satisfies every posted constraint, inside the declared domains
C01_ReportedSat == pc = "solution" => (IsPoint(Box) /\ InBox(PointOf(Box), P.doms) /\ SatAll(P, PointOf(Box)))
\* C02: nothing twice, and at the end everything
C02_NoDuplicate == P.cfg.mode = "solve" => \A i, j \in 1..Len(yielded) : i < j => yielded[i] # yielded[j]
C02_Complete    == (pc = "done" /\ P.cfg.mode = "solve") => {yielded[i] : i \in 1..Len(yielded)} = Sols
\* the search invariant behind C02: every solution not yet delivered lives in exactly one frame
C02_Accounted   == (P.cfg.mode = "solve" /\ pc \notin {"done"}) =>
                     \A x \in Sols : (\E i \in 1..Len(yielded) : yielded[i] = x) \/ (\E k \in 1..Top : InBox(x, doms[k]))
C09_FramesDisjoint == \A k, j \in 1..Top : k < j =>
                        \E d \in 1..NDom(P) : doms[k][d][2] < doms[j][d][1] \/ doms[j][d][2] < doms[k][d][1]
                                              \/ doms[k][d][1] > doms[k][d][2] \/ doms[j][d][1] > doms[j][d][2]
\* C03: the optimisation result
C03_Optimal == (pc = "done" /\ P.cfg.mode \in {"min", "max"}) =>
                  IF Sols = {} THEN best = << >>
                  ELSE /\ best \in Sols
                       /\ ObjOf(best) = (IF P.cfg.mode = "min" THEN Min({ObjOf(x) : x \in Sols}) ELSE Max({ObjOf(x) : x \in Sols}))
C03_NeverSearchesEmpty == pc = "bc" => NonEmptyBox(g.passIn)
\* C04: a pass executes a bounded number of constraints; the heuristics always find something to branch on
C04_PassBounded == g.fpass <= PassBound(P)
C04_NoBranchOnNothing == pc # "BranchOnNothing"
\* C07: a disabled constraint is entailed on the box of the level where it is disabled
C07_EnabledSound == \A k \in 1..Top : \A q \in 1..NProp(P) :
                       (~ne[k][q] /\ NonEmptyBox(doms[k])) => EntailedOn(P, P.props[q], doms[k])
\* C08: when a pass reports consistent/solved, it only shrank, it is a common fixpoint of the enabled constraints
PassEnded == pc \in {"search", "shmain", "shprobe"} /\ bcst # 0 /\ (pc = "search" => P.cfg.ca = 0)
C08_Shrinks  == PassEnded => (SubBox(Box, g.passIn) /\ NonEmptyBox(Box))
C08_Fixpoint == PassEnded => \A q \in 1..NProp(P) : ne[Top][q] =>
                   LET v == ViewBox(P, P.props[q], Box)
                       r == Ideal(P.props[q].alg, P.props[q].params, v)
                   IN r[1] # 0 /\ (r[2] = v \/ P.props[q].alg = "no_sub_cycle")
C08_Greatest == (PassEnded /\ GfpApplicable(P)) => LET gf == Gfp(P, g.passEn, g.passIn) IN gf[1] /\ gf[2] = Box
C08_KeepsSolutions == PassEnded => \A x \in Sols : InBox(x, g.passIn) => InBox(x, Box)
C08_FailsOnlyWithoutSolution == (pc \in {"search", "shmain", "shprobe"} /\ bcst = 0 /\ (pc = "search" => P.cfg.ca = 0))
                                  => \A x \in Sols : ~InBox(x, g.passIn)
\* C10: a finished shaving pass is inside plain bound consistency, keeps the solutions and the stack height
ShEnded == pc = "search" /\ P.cfg.ca = 1 /\ bcst # 0
C10_Sound  == ShEnded => (SubBox(Box, g.shIn) /\ \A x \in Sols : InBox(x, g.shIn) => InBox(x, Box))
C10_InsideBC == (ShEnded /\ GfpApplicable(P)) => LET gf == Gfp(P, AllTrue(NProp(P)), g.shIn) IN gf[1] /\ SubBox(Box, gf[2])
\* C17: the counters are the observed counts; conservation laws at the end of an enumeration
C17_Exact == stats = g.cnt
C17_Conservation == (pc = "done" /\ P.cfg.mode = "solve" /\ P.cfg.ca = 0) =>
                       (stats[BT] = g.lvls /\ stats[BCNB] = 1 + stats[CH] + stats[BT])
C17_Solutions == P.cfg.mode = "solve" => stats[SOLNB] = Len(yielded) + (IF pc = "solution" THEN 1 ELSE 0)
\* C19: the stack never outgrows the configured height
\* (a shaving probe may sit on the first spare level; the search itself never does: it stops with an error)
C19_Fits == Top <= P.cfg.height + 1 /\ (pc \in {"consistency", "search", "solution", "resume"} => Top <= P.cfg.height)
C19_ErrorOnlyWhenFull == pc = "CapacityError" => Top + 2 > P.cfg.height
\* termination (checked under FairSpec on the reduced family)
Terminates == <>(pc \in {"BranchOnNothing", "CapacityError"} \/ (pc = "done" /\ g.call = P.cfg.calls))
=============================================================================
