----------------------------- MODULE MechRefines -----------------------------
(***************************************************************************)
(* Refinement  NucsMech => NucsAbs,  checked by TLC.                       *)
(*                                                                         *)
(* Layer A (NucsAbs) is the judge of every execution of the real engine:   *)
(* its named clauses are what a VIOLATION line reports.  Layer B           *)
(* (NucsMech) is the design, mirrored action by action.  This module runs  *)
(* both side by side: the mechanism takes a step (NucsMech!Next), the      *)
(* abstract events that step amounts to are BUILT FROM THE MECHANISM'S     *)
(* STATE in the very record layout harness/rec_engine.py uses for the      *)
(* real engine, and they are consumed by NucsAbs!Step.  The invariant      *)
(* Refines says that no clause of Layer A ever fails - i.e. every          *)
(* behaviour of the design is a behaviour of the property-level            *)
(* specification, for every problem and configuration of the family.       *)
(*                                                                         *)
(* Two uses:                                                               *)
(*  1. design level: the clauses that decide C01..C10, C17, C19 on the     *)
(*     code hold on ALL behaviours of the mechanism (exhaustive);          *)
(*  2. soundness of the judge: a clause that is stricter than the design   *)
(*     (an over-specification, the source of false alarms) is rejected     *)
(*     here before it can flag a real trace.  Mutated copies of the        *)
(*     mechanism (harness/controls.py) must fail the matching clause.      *)
(*                                                                         *)
(* Event grain: one mechanism step may be several abstract events          *)
(* (a branch = "V" then "B"; an incumbent = "I", "Z", "T"), and most       *)
(* steps inside a pass are stuttering steps of Layer A.                    *)
(***************************************************************************)
EXTENDS NucsMech

VARIABLES a,     \* the NucsAbs state
          h,     \* what the recorder would remember of the running pass / shaving call
          bad    \* clauses of Layer A failed by the last step
rvars == <<vars, a, h, bad>>

TT == [P |-> P, cfg |-> P.cfg, mode |-> P.cfg.mode, var |-> P.cfg.var, id |-> 0]
H0 == [f |-> << >>, q0 |-> << >>, in |-> << >>, en |-> << >>, top |-> 0,
       shIn |-> << >>, shEn |-> << >>, shTop |-> 0]

RECURSIVE Run(_, _, _)
Run(s, evs, acc) == IF evs = << >> THEN <<s, acc>>
                    ELSE LET r == Step(TT, s, Head(evs)) IN Run(r[1], Tail(evs), acc \cup r[2])

Nested == IF P.cfg.ca = 0 THEN 0 ELSE 1
NTop   == Len(doms')
NBox   == doms'[NTop]
NEn    == ne'[NTop]

\* the single-constraint fixpoint probes the recorder runs at the end of a consistent pass
ProbeOf(q, box) ==
  LET c == P.props[q]
      v == ViewBox(P, c, box)
      r == Ideal(c.alg, c.params, v)
  IN IF r[1] = 0 THEN <<q - 1, 0, FALSE>> ELSE <<q - 1, r[1], r[2] = v>>
Probes(box, row) == LET Q == SetToSeq({q \in 1..NProp(P) : row[q]}) IN [i \in 1..Len(Q) |-> ProbeOf(Q[i], box)]

PassStart(q0, box, row, top) == [h EXCEPT !.f = << >>, !.q0 = q0, !.in = box, !.en = row, !.top = top]

PEv(st, f) ==
  [k |-> "P", alg |-> 0, d |-> Nested, in |-> h.in, en |-> h.en, en2 |-> NEn, out |-> NBox, st |-> st,
   trunc |-> FALSE, top |-> h.top, top2 |-> NTop - 1,
   stack |-> SubSeq(doms', 1, NTop - 1), ens |-> SubSeq(ne', 1, NTop - 1),
   f |-> f, probes |-> IF st = 0 THEN << >> ELSE Probes(NBox, NEn), q0 |-> h.q0, q |-> trig', stats |-> stats']
ShEv(st) ==
  [k |-> "P", alg |-> 1, d |-> 0, in |-> h.shIn, en |-> h.shEn, en2 |-> NEn, out |-> NBox, st |-> st,
   trunc |-> FALSE, top |-> h.shTop, top2 |-> NTop - 1, bc |-> << >>,
   stack |-> SubSeq(doms', 1, NTop - 1), ens |-> SubSeq(ne', 1, NTop - 1),
   probes |-> IF st = 0 THEN << >> ELSE Probes(NBox, NEn), q |-> trig', stats |-> stats']
VEv(d0, dd) == [k |-> "V", dom |-> d0, d |-> dd]
BEv(d0, dd, res) ==
  [k |-> "B", dom |-> d0, d |-> dd, levels |-> res.levels, ens |-> [i \in 1..Len(res.levels) |-> ne[Top]],
   events |-> res.events, upd |-> res.upd, top |-> Top - 1, top2 |-> Top - 2 + Len(res.levels)]
REv(dd) == IF Top = 1 THEN [k |-> "R", ok |-> FALSE, d |-> dd, top2 |-> 0, box |-> Box, en |-> ne[Top], q |-> trig]
           ELSE [k |-> "R", ok |-> TRUE, d |-> dd, top2 |-> NTop - 1, box |-> NBox, en |-> NEn, q |-> trig']
SolOf(x) == SolVector(P, x)
OEv == [k |-> "O", none |-> best' = << >>, sol |-> IF best' = << >> THEN << >> ELSE SolOf(best'), stats |-> stats']
DEv == [k |-> "D", stats |-> stats']

\* the abstract events of one mechanism step, and what the recorder remembers afterwards
Events ==
  CASE pc = "consistency" ->
         IF P.cfg.ca = 0 THEN << >>
         ELSE << [k |-> "S", alg |-> 1, in |-> Box, en |-> ne[Top], q0 |-> trig] >>
    [] pc = "bc" ->
         IF Candidates = {} THEN << PEv(bcst', h.f) >>
         ELSE IF pc' = "bc" THEN << >>
         ELSE << PEv(0, Append(h.f, <<IF ne' # ne THEN 2 ELSE IF doms' = doms THEN 0 ELSE 1, TRUE>>)) >>
    [] pc = "search" /\ bcst = 2 -> << >>
    [] pc = "search" /\ bcst = 1 ->
         LET d0 == ChooseVar(P, Box) IN
         IF d0 = -1 THEN << VEv(-1, 0) >>
         ELSE IF pc' = "CapacityError" THEN << >>
         ELSE << VEv(d0, 0), BEv(d0, 0, BranchOf(P, Box, d0 + 1)) >>
    [] pc = "search" /\ bcst = 0 ->
         << REv(0) >>
    [] pc = "solution" /\ P.cfg.mode = "solve" -> << [k |-> "Y", sol |-> SolOf(PointOf(Box)), stats |-> stats] >>
    [] pc = "resume" -> << REv(0) >> \o (IF pc' = "done" THEN << DEv >> ELSE << >>)
    [] pc = "exhausted" /\ P.cfg.mode = "solve" -> << DEv >>
    [] pc = "solution" /\ P.cfg.mode # "solve" ->
         << [k |-> "I", none |-> FALSE, sol |-> SolOf(PointOf(Box)), stats |-> stats],
            [k |-> "Z", box |-> P.doms, en |-> AllOn(P), top |-> 0],
            [k |-> "T", var |-> P.cfg.var, val |-> ObjOf(PointOf(Box)), box |-> NBox] >>
         \o (IF pc' = "done" THEN << OEv >> ELSE << >>)
    [] pc = "exhausted" /\ P.cfg.mode # "solve" -> << [k |-> "I", none |-> TRUE, stats |-> stats], OEv >>
    [] pc = "shloop" -> IF pc' = "search" THEN << ShEv(bcst') >> ELSE << >>
    [] pc = "shmain" -> IF pc' = "search" THEN << ShEv(bcst) >> ELSE << >>
    [] pc = "shpick" ->
         IF pc' = "search" THEN << ShEv(bcst') >>
         ELSE LET d0 == FirstNI(Box, DecFrom(sh.start)) IN
              << VEv(d0, 1), BEv(d0, 1, IF sh.bound = 1 THEN MaxValue(Box, d0 + 1) ELSE MinValue(Box, d0 + 1)) >>
    [] pc = "shprobe" -> << REv(1) >>
    [] OTHER -> << >>

Remember ==
  CASE pc = "consistency" /\ P.cfg.ca = 0 -> PassStart(trig, Box, ne[Top], Top - 1)
    [] pc = "consistency" /\ P.cfg.ca # 0 -> [h EXCEPT !.shIn = Box, !.shEn = ne[Top], !.shTop = Top - 1]
    [] pc = "bc" /\ pc' = "bc" ->
         \* one more constraint execution of the running pass: <<status, changed>> as the registry wrapper logs it
         [h EXCEPT !.f = Append(@, <<IF ne'[Top] # ne[Top] THEN 2 ELSE 1, doms' # doms>>)]
    [] pc = "shloop" /\ pc' = "bc" -> PassStart(trig, Box, ne[Top], Top - 1)
    [] pc = "shpick" /\ pc' = "bc" -> PassStart(trig', NBox, NEn, NTop - 1)
    [] OTHER -> h

RInit == Init /\ a = InitState(TT) /\ h = H0 /\ bad = {}
RNext == /\ Next
         /\ IF pc = "done"          \* CallAgain: a new call is judged from the initial abstract state, like any call
            THEN a' = InitState(TT) /\ bad' = {} /\ h' = H0
            ELSE /\ LET r == Run(a, Events, {}) IN a' = r[1] /\ bad' = r[2]
                 /\ h' = Remember
RSpec == RInit /\ [][RNext]_rvars

\* every behaviour of the mechanism is a behaviour of Layer A: no property-level clause fails
Refines == bad = {}
\* the abstract frames are the mechanism's stack (the refinement mapping, stated as an invariant)
FramesAgree == pc \in {"consistency", "search", "solution", "resume", "shloop", "shpick"} =>
                 /\ Len(a.frames) = Top
                 /\ \A k \in 1..Top : a.frames[k].box = doms[k] /\ a.frames[k].en = ne[k]
\* the observed counts of Layer A are the mechanism's ghost counts (and hence its statistics, C17_Exact)
CountsAgree == pc \in {"search", "done"} => a.cnt = stats
=============================================================================
