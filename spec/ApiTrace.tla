------------------------------ MODULE ApiTrace ------------------------------
(***************************************************************************)
(* The public entry points of one solver agree (C01 / C02, user level).    *)
(* One record per (problem, configuration):                                *)
(*   iter   - the vectors of solve(), each converted when it was yielded   *)
(*   kept   - the SAME yielded array objects, converted after the          *)
(*            enumeration ended (a user who collects list(solver.solve())) *)
(*   found  - find_all() of a fresh solver                                 *)
(*   called - what solve_all(callback) handed to the callback (kept by     *)
(*            reference, converted after the call returned)                *)
(*   mp     - find_all() of a MultiprocessingSolver over a split (as a bag)*)
(* An assignment that was yielded is the user's: it must not change when   *)
(* the search goes on; find_all / solve_all are the same enumeration.      *)
(***************************************************************************)
EXTENDS Integers, Sequences, FiniteSets, TLC, Json, IOUtils
Recs == ndJsonDeserialize(IOEnv.API_RECS)
BagOf(s) == [x \in {s[i] : i \in 1..Len(s)} |-> Cardinality({i \in 1..Len(s) : s[i] = x})]
Verdicts(r) ==
  IF r.raised # "" THEN {"C02:raised-" \o r.raised}
  ELSE (IF r.kept # r.iter THEN {"C01:yielded-assignment-changed-after-it-was-yielded"} ELSE {})
       \cup (IF r.found # r.iter THEN {"C02:find_all-differs-from-the-iterator"} ELSE {})
       \cup (IF r.called # r.iter THEN {"C02:solve_all-differs-from-the-iterator"} ELSE {})
       \cup (IF r.hasmp /\ BagOf(r.mp) # BagOf(r.iter) THEN {"C02:multiprocessing-find_all-differs-from-the-iterator"} ELSE {})
VARIABLE i
Init == i = 1
Next == /\ i <= Len(Recs)
        /\ \A c \in Verdicts(Recs[i]) : PrintT(<<"VERDICT", Recs[i].rid, c>>)
        /\ (i = Len(Recs) => PrintT(<<"JUDGED", i>>))
        /\ i' = i + 1
Spec == Init /\ [][Next]_i
=============================================================================
