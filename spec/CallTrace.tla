------------------------------ MODULE CallTrace ------------------------------
(***************************************************************************)
(* Trace specification for propagator calls recorded from the real code.   *)
(* One state per recorded call; every clause of C05/C06/C07/C14 is judged  *)
(* by Constraints!CallVerdicts; a failed clause prints a total verdict     *)
(*   <<"VERDICT", id, clause>>                                             *)
(* and the run goes on with the next record (verdicts are total).          *)
(* Acceptance: <<"JUDGED", n>> with n = number of records in the shard.    *)
(***************************************************************************)
EXTENDS Constraints, Json, IOUtils

Calls == ndJsonDeserialize(IOEnv.CALLS)

VARIABLE i
Init == i = 1
Judge(c) == LET V == CallVerdicts(c) IN \A cl \in V : PrintT(<<"VERDICT", c.id, cl>>)
Next == /\ i <= Len(Calls)
        /\ Judge(Calls[i])
        /\ (i = Len(Calls) => PrintT(<<"JUDGED", i>>))
        /\ i' = i + 1
Spec == Init /\ [][Next]_i
=============================================================================
