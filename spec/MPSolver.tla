------------------------------ MODULE MPSolver ------------------------------
(***************************************************************************)
(* The multiprocessing solver: W worker processes, each streaming          *)
(*    (worker, solution | None, statistics)                                *)
(* into ONE queue; the parent reads the queue, counts completion markers,  *)
(* yields (enumeration) or keeps the best (optimisation) and remembers the *)
(* last statistics of each worker.  This is the only truly concurrent part *)
(* of NuCS: every interleaving of the workers' puts and the parent's gets  *)
(* is explored.                                                            *)
(*                                                                         *)
(*   Put(w)        worker side: solve_and_queue / optimize_and_queue       *)
(*   Get           parent: one iteration of the while nb > 0 loop          *)
(*   ParentReturn  parent: the loop ended                                  *)
(*   Crash(w)      fault: a worker dies before its completion marker       *)
(*   ParentRaise   parent: notices a dead worker whose marker can no       *)
(*                 longer arrive (only with Detect = TRUE: the design of   *)
(*                 the "fix:" for C18; Detect = FALSE is the pinned design)*)
(*                                                                         *)
(* A scenario fixes, per worker, the objective values of the solutions it  *)
(* will send (taken from REAL worker runs by the harness).  Message i of   *)
(* worker w carries the statistics snapshot "i" (its number of messages so *)
(* far), so "the slot of w holds w's final statistics" is slot[w] = last.  *)
(***************************************************************************)
EXTENDS MPParent, FiniteSets, FiniteSetsExt, SequencesExt, TLC, Json, IOUtils

CONSTANTS Faults,     \* workers may crash
          Detect,     \* the parent detects dead workers
          Track       \* record the arrival order and print it at return (behaviours for the replay)

Scenarios == ndJsonDeserialize(IOEnv.SCENARIOS)

VARIABLES sc, sent, crashed, queue, nb, yielded, best, slot, pc, hist
vars == <<sc, sent, crashed, queue, nb, yielded, best, slot, pc, hist>>

W == 1..Len(sc.streams)
NMsg(w) == Len(sc.streams[w]) + 1                 \* solutions + completion marker
IsMarker(w, i) == i = NMsg(w)
Val(w, i) == sc.streams[w][i]

Init ==
  /\ sc \in {Scenarios[k] : k \in 1..Len(Scenarios)}
  /\ sent = [w \in W |-> 0] /\ crashed = [w \in W |-> FALSE]
  /\ queue = << >> /\ nb = Len(sc.streams)
  /\ yielded = << >> /\ best = << >> /\ slot = [w \in W |-> 0]
  /\ pc = "run" /\ hist = << >>

Put(w) ==
  /\ ~crashed[w] /\ sent[w] < NMsg(w)
  /\ sent' = [sent EXCEPT ![w] = @ + 1]
  /\ queue' = Append(queue, <<w, sent[w] + 1>>)
  /\ UNCHANGED <<sc, crashed, nb, yielded, best, slot, pc, hist>>

Crash(w) ==
  /\ Faults /\ ~crashed[w] /\ sent[w] < NMsg(w)
  /\ crashed' = [crashed EXCEPT ![w] = TRUE]
  /\ UNCHANGED <<sc, sent, queue, nb, yielded, best, slot, pc, hist>>

Get ==
  /\ pc = "run" /\ nb > 0 /\ queue # << >>
  /\ LET m  == Head(queue)
         st == ParentStep(sc.mode, sc.streams, [nb |-> nb, yielded |-> yielded, best |-> best, slot |-> slot], m)
     IN /\ queue' = Tail(queue)
        /\ nb' = st.nb /\ yielded' = st.yielded /\ best' = st.best /\ slot' = st.slot
        /\ hist' = IF Track THEN Append(hist, m) ELSE hist
  /\ UNCHANGED <<sc, sent, crashed, pc>>

ParentReturn ==
  /\ pc = "run" /\ nb = 0
  /\ pc' = "returned"
  /\ (Track => PrintT(<<"ORDER", sc.id, hist, yielded, best>>))
  /\ UNCHANGED <<sc, sent, crashed, queue, nb, yielded, best, slot, hist>>

Finished(w) == slot[w] = NMsg(w)                  \* the parent has consumed w's completion marker
ParentRaise ==
  /\ Detect /\ pc = "run" /\ nb > 0 /\ queue = << >>
  /\ \E w \in W : crashed[w] /\ ~Finished(w)
  /\ pc' = "raised"
  /\ UNCHANGED <<sc, sent, crashed, queue, nb, yielded, best, slot, hist>>

Next == (\E w \in W : Put(w) \/ Crash(w)) \/ Get \/ ParentReturn \/ ParentRaise
Spec == Init /\ [][Next]_vars
FairSpec == Spec /\ WF_vars(Get) /\ WF_vars(ParentReturn) /\ WF_vars(ParentRaise) /\ \A w \in 1..8 : WF_vars(w \in W /\ Put(w))

---------------------------------------------------------------------------
AllMsgs == UNION {{<<w, i>> : i \in 1..Len(sc.streams[w])} : w \in W}
AllVals == {Val(m[1], m[2]) : m \in AllMsgs}

TypeOK == /\ nb \in 0..Len(sc.streams) /\ pc \in {"run", "returned", "raised"}
          /\ \A w \in W : sent[w] \in 0..NMsg(w) /\ slot[w] \in 0..NMsg(w)

\* C11: the multiset yielded is exactly the union of the workers' streams, each worker's order preserved
C11_Bag == (pc = "returned" /\ sc.mode = "solve") =>
              /\ Len(yielded) = Cardinality(AllMsgs)
              /\ {yielded[k] : k \in 1..Len(yielded)} = AllMsgs
C11_PrefixIsPartial == sc.mode = "solve" =>
              /\ \A k, j \in 1..Len(yielded) : k < j => yielded[k] # yielded[j]
              /\ \A k, j \in 1..Len(yielded) : (k < j /\ yielded[k][1] = yielded[j][1]) => yielded[k][2] < yielded[j][2]
\* C11: optimisation keeps the best of the workers' incumbents; None iff nobody found anything
C11_Best == (pc = "returned" /\ sc.mode # "solve") =>
              IF AllMsgs = {} THEN best = << >>
              ELSE best \in AllMsgs /\ Val(best[1], best[2]) = (IF sc.mode = "min" THEN Min(AllVals) ELSE Max(AllVals))
\* C11: the call returns once every worker has finished, with every worker's FINAL statistics
C11_ReturnsAfterAll == pc = "returned" => \A w \in W : sent[w] = NMsg(w) /\ Finished(w)
C11_NeverReadsBeyond == pc = "returned" => queue = << >>
\* C18: the caller is never left waiting for a message that cannot come
QueueShort == Len(queue) <= 1
C18_NoHang == <>(pc # "run")
C11_Returns == <>(pc = "returned")
=============================================================================
