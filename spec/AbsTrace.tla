------------------------------ MODULE AbsTrace ------------------------------
(***************************************************************************)
(* Trace specification: executions of the real NuCS engine (recorded by    *)
(* harness/rec_engine.py) replayed through the actions of NucsAbs.         *)
(* One TLC state per recorded event; thousands of traces per invocation.   *)
(* A failing clause prints a total verdict <<"VERDICT", id, l, clause>>    *)
(* (all failing clauses of the first failing event) and the run goes on    *)
(* with the next trace.  Acceptance: <<"JUDGED", n>> with n = #traces.     *)
(***************************************************************************)
EXTENDS NucsAbs, Json, IOUtils

Traces == ndJsonDeserialize(IOEnv.TRACES)

VARIABLES tid, l, st
vars == <<tid, l, st>>

Init == tid = 1 /\ l = 0 /\ st = InitState(Traces[1])

Skip == IF tid < Len(Traces)
        THEN tid' = tid + 1 /\ l' = 0 /\ st' = InitState(Traces[tid + 1])
        ELSE PrintT(<<"JUDGED", tid>>) /\ tid' = tid + 1 /\ l' = 0 /\ st' = st

Next ==
  /\ tid <= Len(Traces)
  /\ LET T == Traces[tid] IN
     IF l = 0 THEN
        IF WellFormed(T.P) THEN tid' = tid /\ l' = 1 /\ st' = st
        ELSE PrintT(<<"VERDICT", T.id, 0, "XX:ill-formed">>) /\ Skip
     ELSE IF l > Len(T.ev) THEN Skip
     ELSE LET r == Step(T, st, T.ev[l]) IN
          IF r[2] = {} THEN tid' = tid /\ l' = l + 1 /\ st' = r[1]
          ELSE (\A c \in r[2] : PrintT(<<"VERDICT", T.id, l, c>>)) /\ Skip

Spec == Init /\ [][Next]_vars
=============================================================================
