------------------------------ MODULE AbsTrace ------------------------------
(***************************************************************************)
(* Trace specification: executions of the real NuCS engine (recorded by    *)
(* harness/rec_engine.py) replayed through the actions of NucsAbs.         *)
(* One TLC state per recorded event; thousands of traces per invocation.   *)
(* A failing clause prints a total verdict <<"VERDICT", id, l, clause>>    *)
(* (all failing clauses of the first failing event) and the run goes on    *)
(* with the next trace.  Acceptance: <<"JUDGED", n>> with n = #traces.     *)
(***************************************************************************)
EXTENDS NucsAbs, Json, IOUtils

Traces == ndJsonDeserialize(IOEnv.TRACES)

VARIABLES tid, l, st, seen      \* seen: the clauses already reported for the current trace
vars == <<tid, l, st, seen>>

Init == tid = 1 /\ l = 0 /\ st = InitState(Traces[1]) /\ seen = {}

Skip == IF tid < Len(Traces)
        THEN tid' = tid + 1 /\ l' = 0 /\ st' = InitState(Traces[tid + 1]) /\ seen' = {}
        ELSE PrintT(<<"JUDGED", tid>>) /\ tid' = tid + 1 /\ l' = 0 /\ st' = st /\ seen' = {}

\* after these the abstract state cannot be carried on; every other failed clause is reported and the
\* replay continues from the recorded state (so that one defect does not hide another property's clause)
Fatal == {"XX:unknown-event", "C04:unbounded-pass", "C04:branch-on-nothing", "C04:hung", "C09:level", "C16:index-error"}

Next ==
  /\ tid <= Len(Traces)
  /\ LET T == Traces[tid] IN
     IF l = 0 THEN
        IF WellFormed(T.P) THEN tid' = tid /\ l' = 1 /\ st' = st /\ seen' = seen
        ELSE PrintT(<<"VERDICT", T.id, 0, "XX:ill-formed">>) /\ Skip
     ELSE IF l > Len(T.ev) THEN
          \* a trace the recorder had to cut: a verdict only when the cut lies beyond the bound of the whole call
          /\ (T.cut /\ Len(T.ev) > RunBound(T) /\ "C04:search-exceeds-its-bound" \notin seen)
                => PrintT(<<"VERDICT", T.id, l, "C04:search-exceeds-its-bound">>)
          /\ Skip
     ELSE LET r == Step(T, st, T.ev[l]) IN
          /\ \A c \in r[2] \ seen : PrintT(<<"VERDICT", T.id, l, c>>)
          /\ IF r[2] \cap Fatal # {} \/ \E c \in r[2] : Len(c) >= 11 /\ SubSeq(c, 1, 11) = "C04:raised-"
             THEN Skip
             ELSE tid' = tid /\ l' = l + 1 /\ st' = r[1] /\ seen' = seen \cup r[2]

Spec == Init /\ [][Next]_vars
=============================================================================
