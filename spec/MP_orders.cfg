CONSTANTS Faults = FALSE Detect = FALSE Track = TRUE
SPECIFICATION Spec
CHECK_DEADLOCK FALSE
CONSTRAINT QueueShort
INVARIANT C11_Bag
INVARIANT C11_Best
