SPECIFICATION Spec
CHECK_DEADLOCK FALSE
INVARIANT TypeOK
INVARIANT C08_Shrinks
INVARIANT C08_Fixpoint
INVARIANT C08_Greatest
INVARIANT C08_KeepsSolutions
INVARIANT C02_Complete
INVARIANT C01_ReportedSat
INVARIANT C04_PassBounded
