INIT Init
NEXT Next
INVARIANT PartitionLemma
INVARIANT BalancedLemma
CHECK_DEADLOCK FALSE
