---------------------------- MODULE CompiledTrace ----------------------------
(***************************************************************************)
(* The engine traces that NucsAbs validates are recorded in interpreted    *)
(* mode (the only mode in which the engine can be observed without source  *)
(* hooks).  This module carries their verdict over to the COMPILED engine: *)
(* the same items (problem, configuration, mode, objective) are run by the *)
(* compiled solver and must deliver exactly what the validated interpreted *)
(* run delivered - the sequence of solutions, the optimum, the statistics. *)
(*   r = [rid, mode, interp: [ok, sols, opt, stats], comp: [ok, sols, opt, stats]] *)
(***************************************************************************)
EXTENDS Integers, Sequences, TLC, Json, IOUtils
Recs == ndJsonDeserialize(IOEnv.COMPILED_RECS)
Verdicts(r) ==
  IF r.interp.ok # "ok" \/ r.comp.ok = "skip" THEN {}
  ELSE IF r.comp.ok # "ok" THEN {"C01:compiled-run-failed", "C02:compiled-run-failed", "C03:compiled-run-failed", "C17:compiled-run-failed"}
  ELSE (IF r.mode = "solve" /\ r.comp.sols # r.interp.sols
        THEN {"C01:compiled-run-yields-other-assignments-than-the-validated-trace",
              "C02:compiled-enumeration-differs-from-the-validated-trace"} ELSE {})
       \cup (IF r.mode # "solve" /\ (r.comp.opt # r.interp.opt \/ r.comp.sols # r.interp.sols)
             THEN {"C01:compiled-run-yields-other-assignments-than-the-validated-trace",
                   "C03:compiled-optimum-differs-from-the-validated-trace"} ELSE {})
       \cup (IF r.comp.stats # r.interp.stats THEN {"C17:compiled-statistics-differ-from-the-validated-trace"} ELSE {})
VARIABLE i
Init == i = 1
Next == /\ i <= Len(Recs)
        /\ \A c \in Verdicts(Recs[i]) : PrintT(<<"VERDICT", Recs[i].rid, c>>)
        /\ (i = Len(Recs) => PrintT(<<"JUDGED", i>>))
        /\ i' = i + 1
Spec == Init /\ [][Next]_i
=============================================================================
