----------------------------- MODULE Constraints -----------------------------
(***************************************************************************)
(* What every shipped NuCS constraint MEANS, independent of the code.      *)
(*                                                                         *)
(* A box is a sequence of intervals <<lo, hi>>; a tuple is a sequence of   *)
(* integers of the same length.  Positions are 1-based here and 0-based in *)
(* NuCS.  Algorithms are named by the suffix of ALG_* in lower case.       *)
(*                                                                         *)
(*   Sat(alg, p, t)        documented relation on the tuple t              *)
(*   InContract(alg,p,box) documented parameter/domain contract            *)
(*   Supports / Hull / Entailed / Ideal                                    *)
(*   AffineEqRound         the one-round interval reasoning of C14         *)
(*   CallVerdicts          every clause of C05/C06/C07/C14 for one call    *)
(***************************************************************************)
EXTENDS Integers, Sequences, FiniteSets, FiniteSetsExt, TLC

Lo(iv) == iv[1]
Hi(iv) == iv[2]
NonEmptyBox(box) == \A k \in 1..Len(box) : box[k][1] <= box[k][2]
IsPoint(box)     == \A k \in 1..Len(box) : box[k][1] = box[k][2]
PointOf(box)     == [k \in 1..Len(box) |-> box[k][1]]
SubBox(b1, b2)   == /\ Len(b1) = Len(b2)
                    /\ \A k \in 1..Len(b1) : b2[k][1] <= b1[k][1] /\ b1[k][2] <= b2[k][2]
InBox(t, box)    == \A k \in 1..Len(box) : box[k][1] <= t[k] /\ t[k] <= box[k][2]
\* number of points of a box, saturated at 10^6 (TLC integers are 32-bit)
BoxSize(box)     == LET RECURSIVE P(_)
                        P(k) == IF k > Len(box) THEN 1
                                ELSE LET w == IF box[k][2] < box[k][1] THEN 0 ELSE box[k][2] - box[k][1] + 1
                                         r == P(k + 1)
                                     IN IF w = 0 \/ r = 0 THEN 0 ELSE IF w > 1000000 \div r THEN 1000000 ELSE w * r
                    IN P(1)

RECURSIVE TuplesOf(_)
TuplesOf(box) ==
  IF Len(box) = 0 THEN {<<>>}
  ELSE LET rest == TuplesOf(Tail(box))
       IN {<<v>> \o t : v \in (box[1][1])..(box[1][2]), t \in rest}

RECURSIVE SumProd(_, _, _)
SumProd(a, t, i) == IF i > Len(t) THEN 0 ELSE a[i] * t[i] + SumProd(a, t, i + 1)

CountV(t, n, a) == Cardinality({i \in 1..n : t[i] = a})

RECURSIVE LexLeqAt(_, _, _)
LexLeqAt(t, m, i) ==
  IF i > m THEN TRUE
  ELSE IF t[i] < t[m + i] THEN TRUE
  ELSE IF t[i] > t[m + i] THEN FALSE
  ELSE LexLeqAt(t, m, i + 1)

\* successor graph of a tuple: node i (0-based) points to t[i+1]
RECURSIVE Walk(_, _, _)
Walk(t, i, k) == IF k = 0 THEN i ELSE Walk(t, t[i + 1], k - 1)
InRange0(t) == \A i \in 1..Len(t) : t[i] \in 0..(Len(t) - 1)
IsPerm0(t)  == InRange0(t) /\ \A i, j \in 1..Len(t) : i < j => t[i] # t[j]
NoShortCycle(t) == /\ InRange0(t)
                   /\ \A i \in 0..(Len(t) - 1) : \A k \in 1..(Len(t) - 1) : Walk(t, i, k) # i
\* one Hamiltonian circuit  <=>  permutation without short cycle  <=>  arc graph strongly connected
IsCircuit(t) == IsPerm0(t) /\ NoShortCycle(t)

GccM(p) == (Len(p) - 1) \div 2

Algs == {"and", "affine_eq", "affine_geq", "affine_leq", "alldifferent", "count_eq", "dummy",
         "element_iv", "element_liv", "element_lic", "exactly_eq", "exactly_true", "gcc",
         "lexicographic_leq", "max_eq", "max_leq", "min_eq", "min_geq", "no_sub_cycle",
         "relation", "scc"}

(***************************************************************************)
(* The documented relation of each algorithm.                              *)
(***************************************************************************)
Sat(alg, p, t) ==
  LET n == Len(t) IN
  CASE alg = "and"          -> (\A i \in 1..(n - 1) : t[i] = 1) <=> (t[n] = 1)
    [] alg = "affine_eq"    -> SumProd(p, t, 1) = p[n + 1]
    [] alg = "affine_geq"   -> SumProd(p, t, 1) >= p[n + 1]
    [] alg = "affine_leq"   -> SumProd(p, t, 1) <= p[n + 1]
    [] alg = "alldifferent" -> \A i, j \in 1..n : i < j => t[i] # t[j]
    [] alg = "count_eq"     -> CountV(t, n - 1, p[1]) = t[n]
    [] alg = "dummy"        -> TRUE
    [] alg = "element_iv"   -> t[1] >= 0 /\ t[1] < Len(p) /\ p[t[1] + 1] = t[2]
    [] alg = "element_lic"  -> t[n] >= 0 /\ t[n] < n - 1 /\ t[t[n] + 1] = p[1]
    [] alg = "element_liv"  -> t[n - 1] >= 0 /\ t[n - 1] < n - 2 /\ t[t[n - 1] + 1] = t[n]
    [] alg = "exactly_eq"   -> CountV(t, n, p[1]) = p[2]
    [] alg = "exactly_true" -> CountV(t, n, 1) = p[1]
    [] alg = "gcc"          -> LET m == GccM(p) IN
                               \A j \in 0..(m - 1) :
                                  LET c == CountV(t, n, p[1] + j) IN p[2 + j] <= c /\ c <= p[2 + m + j]
    [] alg = "lexicographic_leq" -> LexLeqAt(t, n \div 2, 1)
    [] alg = "max_eq"       -> Max({t[i] : i \in 1..(n - 1)}) = t[n]
    [] alg = "max_leq"      -> \A i \in 1..(n - 1) : t[i] <= t[n]
    [] alg = "min_eq"       -> Min({t[i] : i \in 1..(n - 1)}) = t[n]
    [] alg = "min_geq"      -> \A i \in 1..(n - 1) : t[i] >= t[n]
    [] alg = "no_sub_cycle" -> NoShortCycle(t)
    [] alg = "relation"     -> \E k \in 0..((Len(p) \div n) - 1) : \A i \in 1..n : p[k * n + i] = t[i]
    [] alg = "scc"          -> IsCircuit(t)

(***************************************************************************)
(* The relation against which the circuit constraints are judged: they are *)
(* documented parts of the circuit model (C06's carve-out), so supports    *)
(* are Hamiltonian circuits and ground verdicts are judged on permutations.*)
(***************************************************************************)
CircuitAlgs == {"no_sub_cycle", "scc"}
SatJ(alg, p, t) == IF alg \in CircuitAlgs THEN IsCircuit(t) ELSE Sat(alg, p, t)
\* is the ground verdict on t in the scope of C06 ?
Decisive(alg, t) == alg \notin CircuitAlgs \/ IsPerm0(t)

BoolBox(box) == \A k \in 1..Len(box) : box[k][1] >= 0 /\ box[k][2] <= 1

InContract(alg, p, box) ==
  LET n == Len(box) IN
  /\ alg \in Algs
  /\ NonEmptyBox(box)
  /\ CASE alg = "and"          -> n >= 2 /\ BoolBox(box)
       [] alg \in {"affine_eq", "affine_geq", "affine_leq"} -> n >= 1 /\ Len(p) = n + 1
       [] alg = "alldifferent" -> n >= 1
       [] alg = "count_eq"     -> n >= 2 /\ Len(p) = 1
       [] alg = "dummy"        -> TRUE
       [] alg = "element_iv"   -> n = 2 /\ Len(p) >= 1
       [] alg = "element_lic"  -> n >= 2 /\ Len(p) = 1
       [] alg = "element_liv"  -> n >= 3
       [] alg = "exactly_eq"   -> n >= 1 /\ Len(p) = 2
       [] alg = "exactly_true" -> n >= 1 /\ Len(p) = 1 /\ BoolBox(box)
       [] alg = "gcc"          -> LET m == GccM(p) IN
                                  /\ n >= 1 /\ m >= 1 /\ Len(p) = 1 + 2 * m
                                  \* the documentation puts no relation between a lower bound and a capacity:
                                  \* l_j > u_j is an (unsatisfiable) in-contract parametrisation
                                  /\ \A j \in 0..(m - 1) : 0 <= p[2 + j] /\ 0 <= p[2 + m + j]
                                  /\ \A k \in 1..n : p[1] <= box[k][1] /\ box[k][2] <= p[1] + m - 1
       [] alg = "lexicographic_leq" -> n >= 2      \* an odd arity is used by the shipped Schur model: the last variable is ignored
       [] alg \in {"max_eq", "max_leq", "min_eq", "min_geq"} -> n >= 2
       [] alg \in {"no_sub_cycle", "scc"} -> n >= 1 /\ \A k \in 1..n : 0 <= box[k][1] /\ box[k][2] <= n - 1
       [] alg = "relation"     -> n >= 1 /\ Len(p) >= n /\ Len(p) % n = 0

(***************************************************************************)
(* Supports, hull, entailment                                              *)
(***************************************************************************)
Supports(alg, p, box) == {t \in TuplesOf(box) : SatJ(alg, p, t)}
Hull(S, n) == [k \in 1..n |-> <<Min({t[k] : t \in S}), Max({t[k] : t \in S})>>]
Entailed(alg, p, box) == \A t \in TuplesOf(box) : Sat(alg, p, t)

\* documented as implementing bound consistency: one call = exact hull
HullAlgs == {"and", "affine_geq", "affine_leq", "alldifferent", "count_eq", "element_iv",
             "element_liv", "element_lic", "exactly_eq", "exactly_true", "gcc",
             "lexicographic_leq", "max_eq", "max_leq", "min_eq", "min_geq", "relation"}

(***************************************************************************)
(* Linear equality: ONE round of interval reasoning on the input bounds.   *)
(*   c_i x_i  \in  [K - hiRest_i , K - loRest_i]                           *)
(***************************************************************************)
FloorDiv(a, b) == IF b > 0 THEN a \div b ELSE (-a) \div (-b)
CeilDiv(a, b)  == -FloorDiv(-a, b)
TermLo(c, iv) == IF c > 0 THEN c * iv[1] ELSE c * iv[2]
TermHi(c, iv) == IF c > 0 THEN c * iv[2] ELSE c * iv[1]
RECURSIVE SumLo(_, _, _)
SumLo(p, box, i) == IF i > Len(box) THEN 0 ELSE TermLo(p[i], box[i]) + SumLo(p, box, i + 1)
RECURSIVE SumHi(_, _, _)
SumHi(p, box, i) == IF i > Len(box) THEN 0 ELSE TermHi(p[i], box[i]) + SumHi(p, box, i + 1)

AffineEqRoundBox(p, box) ==
  LET n  == Len(box)
      K  == p[n + 1]
      lo == SumLo(p, box, 1)
      hi == SumHi(p, box, 1)
  IN [i \in 1..n |->
        IF p[i] = 0 THEN box[i]
        ELSE LET loRest == lo - TermLo(p[i], box[i])
                 hiRest == hi - TermHi(p[i], box[i])
                 a == IF p[i] > 0 THEN CeilDiv(K - hiRest, p[i]) ELSE CeilDiv(K - loRest, p[i])
                 b == IF p[i] > 0 THEN FloorDiv(K - loRest, p[i]) ELSE FloorDiv(K - hiRest, p[i])
             IN <<Max({box[i][1], a}), Min({box[i][2], b})>>]
\* <<feasible?, box>> : the round fails when some interval becomes empty or K is out of reach
AffineEqRound(p, box) ==
  LET r == AffineEqRoundBox(p, box)
      K == p[Len(box) + 1]
  IN IF K < SumLo(p, box, 1) \/ K > SumHi(p, box, 1) \/ ~NonEmptyBox(r) THEN <<FALSE, box>> ELSE <<TRUE, r>>

(***************************************************************************)
(* Ideal(alg,p,box) = <<status, box'>> : what a contract-level propagator  *)
(* returns (used by the mechanism model).  0 inconsistent, 1 consistent,   *)
(* 2 entailed.  Entailment is reported by the ideal propagator exactly for *)
(* the algorithms that can answer it, when the hull is entailed.           *)
(***************************************************************************)
EntailAlgs == {"affine_geq", "affine_leq", "count_eq", "element_iv", "element_lic", "element_liv",
               "exactly_eq", "exactly_true", "lexicographic_leq", "max_leq", "min_geq", "relation"}

(***************************************************************************)
(* Explicit definitions of the two circuit constraints, which are not      *)
(* bound-consistency propagators.                                          *)
(*  no_sub_cycle: path merging on instantiated successors - paths[i] =     *)
(*    <<start, end, length>>; an instantiated i whose path still ends at i *)
(*    is merged with the path starting at its successor j; while the       *)
(*    merged path is shorter than n-1 its end may not point back to its    *)
(*    start (the bound equal to start is removed).  The scan is repeated   *)
(*    while a merge moved the end of a path to an index already scanned.   *)
(*  scc: check only - the digraph i -> v (v in the domain of i) must be    *)
(*    strongly connected.                                                  *)
(***************************************************************************)
NSCGet(paths, i) == paths[i + 1]
NSCSet(paths, i, k, v) == [paths EXCEPT ![i + 1][k] = v]
\* one scan i = from..n-1; state = [ok, box, paths, again]
RECURSIVE NSCScan(_, _, _)
NSCScan(st, i, n) ==
  IF ~st.ok \/ i >= n THEN st
  ELSE LET box == st.box  paths == st.paths IN
       IF box[i + 1][1] = box[i + 1][2] /\ NSCGet(paths, i)[2] = i THEN
          LET j == box[i + 1][1] IN
          IF j = i /\ n > 1 THEN [st EXCEPT !.ok = FALSE]
          ELSE LET end    == NSCGet(paths, j)[2]
                   p1     == NSCSet(paths, i, 2, end)
                   start  == NSCGet(p1, i)[1]
                   p2     == NSCSet(p1, j, 1, start)
                   p3     == NSCSet(p2, start, 2, end)
                   p4     == NSCSet(p3, end, 1, start)
                   length == NSCGet(p4, i)[3] + 1 + NSCGet(p4, j)[3]
                   p5     == NSCSet(NSCSet(NSCSet(NSCSet(p4, i, 3, length), j, 3, length), start, 3, length), end, 3, length)
               IN IF length < n - 1 THEN
                     LET lo == IF box[end + 1][1] = start THEN start + 1 ELSE box[end + 1][1]
                         hi == IF box[end + 1][2] = start THEN start - 1 ELSE box[end + 1][2]
                         b2 == [box EXCEPT ![end + 1] = <<lo, hi>>]
                     IN IF lo > hi THEN [st EXCEPT !.ok = FALSE, !.box = b2]
                        ELSE NSCScan([st EXCEPT !.box = b2, !.paths = p5, !.again = @ \/ end < i], i + 1, n)
                  ELSE NSCScan([st EXCEPT !.paths = p5], i + 1, n)
       ELSE NSCScan(st, i + 1, n)
RECURSIVE NSCRun(_, _)
NSCRun(st, n) == LET r == NSCScan([st EXCEPT !.again = FALSE], 0, n) IN
                 IF r.ok /\ r.again THEN NSCRun(r, n) ELSE r
NoSubCycleStep(box) ==
  LET n == Len(box)
      r == NSCRun([ok |-> TRUE, box |-> box, paths |-> [i \in 1..n |-> <<i - 1, i - 1, 0>>], again |-> FALSE], n)
  IN IF r.ok THEN <<1, r.box>> ELSE <<0, box>>

Arc(box, i, j) == box[i + 1][1] <= j /\ j <= box[i + 1][2]
RECURSIVE ReachFrom(_, _, _)
ReachFrom(box, S, fwd) ==
  LET n == Len(box)
      T == S \cup {j \in 0..(n - 1) : \E i \in S : IF fwd THEN Arc(box, i, j) ELSE Arc(box, j, i)}
  IN IF T = S THEN S ELSE ReachFrom(box, T, fwd)
SccCheck(box) == LET n == Len(box) IN
                 IF ReachFrom(box, {0}, TRUE) = 0..(n - 1) /\ ReachFrom(box, {0}, FALSE) = 0..(n - 1) THEN <<1, box>> ELSE <<0, box>>

Ideal(alg, p, box) ==
  IF alg = "dummy" THEN <<1, box>>
  ELSE IF alg = "no_sub_cycle" THEN NoSubCycleStep(box)
  ELSE IF alg = "scc" THEN SccCheck(box)
  ELSE IF alg = "affine_eq" THEN
       LET r == AffineEqRound(p, box) IN
       IF ~r[1] THEN <<0, box>>
       ELSE IF IsPoint(r[2]) /\ ~Sat(alg, p, PointOf(r[2])) THEN <<0, box>> ELSE <<1, r[2]>>
  ELSE LET S == Supports(alg, p, box) IN
       IF S = {} THEN <<0, box>>
       ELSE IF alg = "scc" THEN <<1, box>>
       ELSE LET h == Hull(S, Len(box)) IN
            IF alg \in EntailAlgs /\ Entailed(alg, p, h) THEN <<2, h>> ELSE <<1, h>>

(***************************************************************************)
(* Verdicts on ONE recorded call                                           *)
(*   c = [alg, params, inbox, status, outbox, status2, outbox2]            *)
(* status2/outbox2 = the same propagator run a second time on its output   *)
(* (status2 = -1 when the first call failed).                              *)
(* Returns the SET of failed clause names, each prefixed by its property.  *)
(***************************************************************************)
OracleCap == 6000
CallVerdicts(c) ==
  LET alg == c.alg
      p   == c.params
      n   == Len(c.inbox)
      S   == Supports(alg, p, c.inbox)
      ok  == c.status # 0
      out == c.outbox
  IN
  IF ~InContract(alg, p, c.inbox) THEN {"XX:out-of-contract"}
  ELSE IF c.status = -9 THEN {"C04:filter-hung"}
  ELSE IF c.status = -8 THEN {"C16:index-error"}
  ELSE IF c.status = -7 THEN {"C05:raised"}
  ELSE IF c.status \notin {0, 1, 2} THEN {"C05:bad-status"}
  ELSE IF BoxSize(c.inbox) > OracleCap THEN
    \* too large for the brute-force oracle (the large-arity corpus of C16): structural clauses only
    (IF ok /\ ~(SubBox(out, c.inbox)) THEN {"C05:grows"} ELSE {})
    \cup (IF ok /\ SubBox(out, c.inbox) /\ ~NonEmptyBox(out) THEN {"C05:empty-domain"} ELSE {})
    \cup (IF ok /\ c.status2 = -9 THEN {"C04:filter-hung-on-own-output"} ELSE {})
    \cup (IF ok /\ c.status2 = -8 THEN {"C16:index-error-on-own-output"} ELSE {})
    \cup (IF alg \in HullAlgs /\ ok /\ c.status2 \in {0, 1, 2} /\ (c.status2 = 0 \/ c.outbox2 # out)
          THEN {"C14:not-idempotent"} ELSE {})
  ELSE
    \* ---- C05 soundness
    (IF ok /\ ~(SubBox(out, c.inbox)) THEN {"C05:grows"} ELSE {})
    \cup (IF ok /\ SubBox(out, c.inbox) /\ ~NonEmptyBox(out) THEN {"C05:empty-domain"} ELSE {})
    \cup (IF ok /\ \E t \in S : ~InBox(t, out) THEN {"C05:lost-support"} ELSE {})
    \cup (IF ~ok /\ S # {} THEN {"C05:false-inconsistency"} ELSE {})
    \* ---- C06 ground decisiveness
    \cup (IF IsPoint(c.inbox) /\ Decisive(alg, PointOf(c.inbox)) /\ ok /\ ~SatJ(alg, p, PointOf(c.inbox))
          THEN {"C06:ground-violated-accepted"} ELSE {})
    \cup (IF IsPoint(c.inbox) /\ Decisive(alg, PointOf(c.inbox)) /\ ~ok /\ SatJ(alg, p, PointOf(c.inbox))
          THEN {"C06:ground-satisfied-rejected"} ELSE {})
    \cup (IF ok /\ NonEmptyBox(out) /\ IsPoint(out) /\ ~IsPoint(c.inbox) /\ Decisive(alg, PointOf(out))
             /\ ~SatJ(alg, p, PointOf(out))
          THEN {"C06:collapsed-to-violating-point"} ELSE {})
    \* ---- C07 entailment
    \cup (IF c.status = 2 /\ NonEmptyBox(out) /\ ~Entailed(alg, p, out) THEN {"C07:premature-entailment"} ELSE {})
    \* ---- C14 exactness / idempotence
    \cup (IF alg \in HullAlgs /\ ok /\ S # {} /\ out # Hull(S, n) THEN {"C14:not-hull"} ELSE {})
    \cup (IF alg \in HullAlgs /\ ok /\ S = {} THEN {"C14:missed-inconsistency"} ELSE {})
    \cup (IF alg \in HullAlgs /\ ok /\ c.status2 \in {0, 1, 2} /\ (c.status2 = 0 \/ c.outbox2 # out)
          THEN {"C14:not-idempotent"} ELSE {})
    \cup (IF ok /\ c.status2 = -9 THEN {"C04:filter-hung-on-own-output"} ELSE {})
    \cup (IF ok /\ c.status2 = -8 THEN {"C16:index-error-on-own-output"} ELSE {})
    \* the explicit definitions of the circuit constraints (no listed property: a mismatch is reported as drift)
    \cup (IF alg \in CircuitAlgs /\ (LET r == Ideal(alg, p, c.inbox) IN (r[1] = 0) # (~ok) \/ (ok /\ r[2] # out))
          THEN {"DRIFT:circuit-constraint-differs-from-its-explicit-definition"} ELSE {})
    \cup (IF alg = "affine_eq" THEN
             LET r == AffineEqRound(p, c.inbox) IN
             (IF ~r[1] /\ ok THEN {"C14:affine-eq-missed-empty-round"} ELSE {})
             \cup (IF r[1] /\ ok /\ out # r[2] THEN {"C14:affine-eq-not-one-round"} ELSE {})
          ELSE {})
=============================================================================
