------------------------------ MODULE Rewrites ------------------------------
(***************************************************************************)
(* Meaning-preserving rewrites of a model (C13).  Each operator returns    *)
(* the rewritten problem; Back(kind, ...) maps a solution of the rewritten *)
(* problem to a solution of the original one.                              *)
(*                                                                         *)
(*   unshare    every variable gets its own domain (domain + offset),      *)
(*              variables that shared a domain are linked by x_v - x_r = c *)
(*   permc      the constraints are posted in another order                *)
(*   permv      the variables are renumbered                               *)
(*   dup        one constraint is posted twice                             *)
(*   true       an always-true constraint is added                         *)
(*   incr       the same model built incrementally (add_variable(s), explicit  *)
(*              indices / offsets for shared domains, add_propagator(s))      *)
(*   shift      all values are translated by delta (translation-invariant  *)
(*              constraints only; parameters that are values move along)   *)
(*                                                                         *)
(* Stage "rewrite": TLC applies the rewrites to the problems the harness   *)
(* exported and writes them out; on small problems it also checks, by      *)
(* brute force, the lemma that the rewrite preserves the solution set.     *)
(* Stage "judge": TLC compares the real solver's results on both models.   *)
(***************************************************************************)
EXTENDS NucsAbs, Json, IOUtils

NVar(P) == Len(P.vidx)
Rep(P, v) == Min({u \in 0..(NVar(P) - 1) : P.vidx[u + 1] = P.vidx[v + 1]})

Unshare(P) ==
  LET nv == NVar(P)
      nonrep == SelectSeq([v \in 1..nv |-> v - 1], LAMBDA v : Rep(P, v) # v)
      links == [k \in 1..Len(nonrep) |->
                  [vars |-> <<nonrep[k], Rep(P, nonrep[k])>>, alg |-> "affine_eq",
                   params |-> <<1, -1, P.voff[nonrep[k] + 1] - P.voff[Rep(P, nonrep[k]) + 1]>>]]
  IN [doms |-> [v \in 1..nv |-> <<P.doms[P.vidx[v] + 1][1] + P.voff[v], P.doms[P.vidx[v] + 1][2] + P.voff[v]>>],
      vidx |-> [v \in 1..nv |-> v - 1], voff |-> [v \in 1..nv |-> 0], props |-> P.props \o links]

\* perm[k] = 0-based old index of the constraint posted in position k
PermuteConstraints(P, perm) == [P EXCEPT !.props = [k \in 1..Len(perm) |-> P.props[perm[k] + 1]]]

\* perm[v+1] = new 0-based index of the old variable v
PermuteVariables(P, perm) ==
  LET nv  == NVar(P)
      old(w) == CHOOSE v \in 0..(nv - 1) : perm[v + 1] = w
  IN [P EXCEPT !.vidx = [w \in 1..nv |-> P.vidx[old(w - 1) + 1]],
               !.voff = [w \in 1..nv |-> P.voff[old(w - 1) + 1]],
               !.props = [q \in 1..Len(P.props) |->
                            [P.props[q] EXCEPT !.vars = [k \in 1..Len(P.props[q].vars) |-> perm[P.props[q].vars[k] + 1]]]]]

Duplicate(P, q) == [P EXCEPT !.props = Append(P.props, P.props[q + 1])]

\* always-true constraints: a dummy, 0*x <= 0, or x <= max(x)
AddTrue(P, which, v) ==
  LET c == CASE which = 0 -> [vars |-> <<v>>, alg |-> "dummy", params |-> << >>]
             [] which = 1 -> [vars |-> <<v>>, alg |-> "affine_leq", params |-> <<0, 0>>]
             [] which = 2 -> [vars |-> <<v, v>>, alg |-> "max_leq", params |-> << >>]
             [] OTHER     -> [vars |-> <<v, v>>, alg |-> "affine_eq", params |-> <<1, -1, 0>>]
  IN [P EXCEPT !.props = Append(P.props, c)]

RECURSIVE SumSeq(_, _)
SumSeq(s, n) == IF n = 0 THEN 0 ELSE s[n] + SumSeq(s, n - 1)
ShiftableAlgs == {"alldifferent", "lexicographic_leq", "max_eq", "max_leq", "min_eq", "min_geq", "affine_eq",
                  "affine_geq", "affine_leq", "exactly_eq", "relation", "gcc", "dummy", "count_eq_never"}
Shiftable(P) == \A q \in 1..Len(P.props) : P.props[q].alg \in ShiftableAlgs
ShiftParams(c, delta) ==
  LET n == Len(c.vars) IN
  CASE c.alg \in {"affine_eq", "affine_geq", "affine_leq"} ->
         [k \in 1..(n + 1) |-> IF k <= n THEN c.params[k] ELSE c.params[k] + delta * SumSeq(c.params, n)]
    [] c.alg = "exactly_eq" -> <<c.params[1] + delta, c.params[2]>>
    [] c.alg = "relation"   -> [k \in 1..Len(c.params) |-> c.params[k] + delta]
    [] c.alg = "gcc"        -> [k \in 1..Len(c.params) |-> IF k = 1 THEN c.params[k] + delta ELSE c.params[k]]
    [] OTHER -> c.params
Shift(P, delta) ==
  [P EXCEPT !.doms = [d \in 1..Len(P.doms) |-> <<P.doms[d][1] + delta, P.doms[d][2] + delta>>],
            !.props = [q \in 1..Len(P.props) |-> [P.props[q] EXCEPT !.params = ShiftParams(P.props[q], delta)]]]

Apply(r) ==
  CASE r.kind = "unshare" -> Unshare(r.P)
    [] r.kind = "permc"   -> PermuteConstraints(r.P, r.perm)
    [] r.kind = "permv"   -> PermuteVariables(r.P, r.perm)
    [] r.kind = "dup"     -> Duplicate(r.P, r.q)
    [] r.kind = "true"    -> AddTrue(r.P, r.q, r.v)
    [] r.kind = "shift"   -> Shift(r.P, r.delta)
    [] r.kind = "incr"    -> r.P        \* the same model, written through add_variable(s) / add_propagator(s) by the harness

\* a solution vector of the rewritten model, read back as a solution vector of the original one
Back(r, y) ==
  CASE r.kind = "permv" -> [v \in 1..Len(y) |-> y[r.perm[v] + 1]]
    [] r.kind = "shift" -> [v \in 1..Len(y) |-> y[v] - r.delta]
    [] OTHER -> y

SolVectors(P) == {SolVector(P, s) : s \in Solutions(P)}
LemmaHolds(r) == LET Q == Apply(r) IN
                 BoxSize(Q.doms) > 3000 \/ BoxSize(r.P.doms) > 3000
                 \/ {Back(r, y) : y \in SolVectors(Q)} = SolVectors(r.P)

---------------------------------------------------------------------------
In == ndJsonDeserialize(IOEnv.REWRITE_IN)
BagOfSeq(s) == [x \in {s[i] : i \in 1..Len(s)} |-> Cardinality({i \in 1..Len(s) : s[i] = x})]

\* judge one pair of real runs: r has kind/perm/delta and solsP, solsQ, optP, optQ (<<none, value>>), okP, okQ
JudgeVerdicts(r) ==
  LET back == [k \in 1..Len(r.solsQ) |-> Back(r, r.solsQ[k])] IN
  (IF r.okP # "ok" \/ r.okQ # "ok" THEN {"C13:run-failed"} ELSE {})
  \cup (IF r.okP = "ok" /\ r.okQ = "ok" /\ r.mode = "solve" /\ BagOfSeq(back) # BagOfSeq(r.solsP)
        THEN {"C13:solution-sets-differ"} ELSE {})
  \cup (IF r.okP = "ok" /\ r.okQ = "ok" /\ r.mode # "solve" /\ r.optP[1] # r.optQ[1] THEN {"C13:feasibility-differs"} ELSE {})
  \cup (IF r.okP = "ok" /\ r.okQ = "ok" /\ r.mode # "solve" /\ r.optP[1] = 0 /\ r.optQ[1] = 0
           /\ r.optP[2] # r.optQ[2] - (IF r.kind = "shift" THEN r.delta ELSE 0)
        THEN {"C13:optimum-differs"} ELSE {})

VARIABLE i
Init == i = 1
Stage == IOEnv.REWRITE_STAGE
Next ==
  /\ i <= Len(In)
  /\ IF Stage = "rewrite"
     THEN /\ (~LemmaHolds(In[i]) => PrintT(<<"VERDICT", In[i].rid, "XX:rewrite-lemma">>))
          /\ (i = Len(In) => /\ ndJsonSerialize(IOEnv.REWRITE_OUT, [k \in 1..Len(In) |-> [rid |-> In[k].rid, Q |-> Apply(In[k])]])
                             /\ PrintT(<<"JUDGED", i>>))
     ELSE /\ \A c \in JudgeVerdicts(In[i]) : PrintT(<<"VERDICT", In[i].rid, c>>)
          /\ (i = Len(In) => PrintT(<<"JUDGED", i>>))
  /\ i' = i + 1
Spec == Init /\ [][Next]_i
=============================================================================
