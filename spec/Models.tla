------------------------------- MODULE Models -------------------------------
(***************************************************************************)
(* C20 - definition-level validators of the combinatorial objects the      *)
(* shipped models are about, written from the problem statements (CSPLib)  *)
(* and NOT from the models' constraints, plus the counts / optima known    *)
(* from the literature.  A record r describes one run of the real solver:  *)
(*   [rid, name, args, sb, count, sols (all or a prefix), full, none, opt, *)
(*    group (runs of the same instance under different configurations)]    *)
(* Variables are 0-based in NuCS: V(s, v) is the value of variable v.      *)
(***************************************************************************)
EXTENDS Integers, Sequences, FiniteSets, FiniteSetsExt, SequencesExt, TLC, Json, IOUtils

V(s, v) == s[v + 1]
AllDiff(S, f(_)) == \A a, b \in S : a # b => f(a) # f(b)
RECURSIVE SumOver(_, _, _)
SumOver(f, lo, hi) == IF lo > hi THEN 0 ELSE f[lo] + SumOver(f, lo + 1, hi)
Sum(S, f(_)) == LET seq == SetToSeq(S) IN SumOver([k \in 1..Len(seq) |-> f(seq[k])], 1, Len(seq))

---------------------------------------------------------------------------
IsQueens(n, s) ==
  /\ Len(s) = 3 * n
  /\ \A i \in 0..(n - 1) : V(s, i) \in 0..(n - 1) /\ V(s, n + i) = V(s, i) + i /\ V(s, 2 * n + i) = V(s, i) - i
  /\ \A i, j \in 0..(n - 1) : i < j => /\ V(s, i) # V(s, j)
                                       /\ V(s, i) + i # V(s, j) + j
                                       /\ V(s, i) - i # V(s, j) - j

\* cell (i, j) of the colour model of a latin square of order n
Cell(n, s, i, j) == V(s, i * n + j)
IsLatin(n, s, lo) ==
  /\ \A i, j \in 0..(n - 1) : Cell(n, s, i, j) \in lo..(lo + n - 1)
  /\ \A i \in 0..(n - 1) : \A j, k \in 0..(n - 1) : j < k => Cell(n, s, i, j) # Cell(n, s, i, k) /\ Cell(n, s, j, i) # Cell(n, s, k, i)
\* the redundant row / column models: row[c, j] = i <=> colour[i, j] = c ; column[i, c] = j <=> colour[i, j] = c
IsLatinRC(n, s) ==
  /\ Len(s) = 3 * n * n /\ IsLatin(n, s, 0)
  /\ \A i, j \in 0..(n - 1) : LET c == Cell(n, s, i, j) IN
        V(s, n * n + c * n + j) = i /\ V(s, 2 * n * n + i * n + c) = j
\* QG5: idempotent, ((b*a)*b)*b = a
IsQuasigroup5(n, s) ==
  /\ IsLatinRC(n, s)
  /\ \A a \in 0..(n - 1) : Cell(n, s, a, a) = a
  /\ \A a, b \in 0..(n - 1) : Cell(n, s, Cell(n, s, Cell(n, s, b, a), b), b) = a

IsMagicSquare(n, s) ==
  LET m == ((n * n - 1) * n) \div 2 IN
  /\ Len(s) = n * n
  /\ {V(s, k) : k \in 0..(n * n - 1)} = 0..(n * n - 1)
  /\ \A i \in 0..(n - 1) : Sum(0..(n - 1), LAMBDA j : Cell(n, s, i, j)) = m /\ Sum(0..(n - 1), LAMBDA j : Cell(n, s, j, i)) = m
  /\ Sum(0..(n - 1), LAMBDA i : Cell(n, s, i, i)) = m
  /\ Sum(0..(n - 1), LAMBDA i : Cell(n, s, i, n - 1 - i)) = m

IsMagicSequence(n, s) ==
  /\ Len(s) = n
  /\ \A i \in 0..(n - 1) : V(s, i) = Cardinality({j \in 0..(n - 1) : V(s, j) = i})

\* index of the distance variable between marks i < j (the documented layout of the model)
GIdx(m, i, j) == i * m - ((i * (i + 1)) \div 2) + j - i - 1
IsGolomb(m, s) ==
  LET mark(j) == IF j = 0 THEN 0 ELSE V(s, GIdx(m, 0, j)) IN
  /\ Len(s) = (m * (m - 1)) \div 2
  /\ \A i, j \in 0..(m - 1) : i < j => (mark(i) < mark(j) /\ V(s, GIdx(m, i, j)) = mark(j) - mark(i))
  /\ \A i, j, k, l \in 0..(m - 1) : (i < j /\ k < l /\ <<i, j>> # <<k, l>>) => mark(j) - mark(i) # mark(l) - mark(k)
GolombLength(m, s) == V(s, GIdx(m, 0, m - 1))
KnownGolomb == <<0, 1, 3, 6, 11, 17, 25, 34, 44, 55>>

IsBIBD(a, s) ==
  LET v == a[1]  b == a[2]  r == a[3]  k == a[4]  l == a[5]
      x(i, j) == V(s, i * b + j) IN
  /\ \A i \in 0..(v - 1), j \in 0..(b - 1) : x(i, j) \in {0, 1}
  /\ \A i \in 0..(v - 1) : Cardinality({j \in 0..(b - 1) : x(i, j) = 1}) = r
  /\ \A j \in 0..(b - 1) : Cardinality({i \in 0..(v - 1) : x(i, j) = 1}) = k
  /\ \A i1, i2 \in 0..(v - 1) : i1 < i2 => Cardinality({j \in 0..(b - 1) : x(i1, j) = 1 /\ x(i2, j) = 1}) = l

\* Schur's lemma: numbers 1..n in 3 boxes, no box contains x, y and x + y (x = y allowed)
IsSchur(n, s) ==
  LET box(x) == CHOOSE k \in 0..2 : V(s, 3 * (x - 1) + k) = 1 IN
  /\ Len(s) = 3 * n
  /\ \A x \in 1..n : Cardinality({k \in 0..2 : V(s, 3 * (x - 1) + k) = 1}) = 1
                     /\ \A k \in 0..2 : V(s, 3 * (x - 1) + k) \in {0, 1}
  /\ \A x, y \in 1..n : (x + y <= n /\ box(x) = box(y)) => box(x + y) # box(x)

IsKnapsack(a, s) ==
  LET w == a[1]  vol == a[2]  cap == a[3]  n == Len(w) IN
  /\ \A i \in 0..(n - 1) : V(s, i) \in {0, 1}
  /\ Sum(0..(n - 1), LAMBDA i : vol[i + 1] * V(s, i)) <= cap
  /\ V(s, n) = Sum(0..(n - 1), LAMBDA i : w[i + 1] * V(s, i))
KnapsackBest(a) ==
  LET w == a[1]  vol == a[2]  cap == a[3]  n == Len(w)
      ok(S) == Sum(S, LAMBDA i : vol[i]) <= cap
  IN Max({Sum(S, LAMBDA i : w[i]) : S \in {T \in SUBSET (1..n) : ok(T)}})

RECURSIVE Walk(_, _, _)
Walk(s, i, k) == IF k = 0 THEN i ELSE Walk(s, V(s, i), k - 1)
IsTour(n, s) ==
  /\ \A i \in 0..(n - 1) : V(s, i) \in 0..(n - 1)
  /\ \A i, j \in 0..(n - 1) : i < j => V(s, i) # V(s, j)
  /\ \A k \in 1..(n - 1) : Walk(s, 0, k) # 0
IsTSP(costs, s) ==
  LET n == Len(costs) IN
  /\ IsTour(n, s)
  /\ \A i \in 0..(n - 1) : V(s, n + i) = costs[i + 1][V(s, i) + 1]
  /\ V(s, 2 * n) = Sum(0..(n - 1), LAMBDA i : costs[i + 1][V(s, i) + 1])
TSPBest(costs) ==
  LET n == Len(costs)
      tours == {t \in [1..n -> 0..(n - 1)] : IsTour(n, t)}
  IN Min({Sum(0..(n - 1), LAMBDA i : costs[i + 1][t[i + 1] + 1]) : t \in tours})
RECURSIVE Fact(_)
Fact(n) == IF n <= 1 THEN 1 ELSE n * Fact(n - 1)

\* sports tournament scheduling: n teams, n-1 weeks, n/2 periods, 2 slots
IsSTS(n, s) ==
  LET W == n - 1  PR == n \div 2
      team(p, w, sl) == V(s, p * (W * 2) + w * 2 + sl)
      teamVars == PR * W * 2
      ordinal(t1, t2) == ((n - 1) * n) \div 2 - (((n - t1) * (n - t1 - 1)) \div 2) + t2 - t1 - 1 IN
  /\ \A p \in 0..(PR - 1), w \in 0..(W - 1), sl \in 0..1 : team(p, w, sl) \in 0..(n - 1)
  /\ \A w \in 0..(W - 1) : {team(p, w, sl) : p \in 0..(PR - 1), sl \in 0..1} = 0..(n - 1)      \* every team once a week
  /\ \A p \in 0..(PR - 1), t \in 0..(n - 1) :
        Cardinality({<<w, sl>> \in (0..(W - 1)) \X (0..1) : team(p, w, sl) = t}) <= 2                \* at most twice per period
  /\ \A t1, t2 \in 0..(n - 1) : t1 < t2 =>
        Cardinality({<<p, w>> \in (0..(PR - 1)) \X (0..(W - 1)) : {team(p, w, 0), team(p, w, 1)} = {t1, t2}}) = 1
  /\ \A p \in 0..(PR - 1), w \in 0..(W - 1) :
        team(p, w, 0) < team(p, w, 1) /\ V(s, teamVars + p * W + w) = ordinal(team(p, w, 0), team(p, w, 1))

IsSudoku(givens, s) ==
  /\ Len(s) = 81 /\ IsLatin(9, s, 1)
  /\ \A bi, bj \in 0..2 : {Cell(9, s, 3 * bi + i, 3 * bj + j) : i \in 0..2, j \in 0..2} = 1..9
  /\ \A i, j \in 0..8 : givens[i + 1][j + 1] \in 1..9 => Cell(9, s, i, j) = givens[i + 1][j + 1]

\* DONALD + GERALD = ROBERT ; variables A B D E G L N O R T = 0..9
IsDonald(s) ==
  LET A == V(s, 0) B == V(s, 1) D == V(s, 2) E == V(s, 3) G == V(s, 4) L == V(s, 5) N == V(s, 6) O == V(s, 7) R == V(s, 8) T == V(s, 9)
      num(a, b, c, d, e, f) == ((((a * 10 + b) * 10 + c) * 10 + d) * 10 + e) * 10 + f IN
  /\ {V(s, k) : k \in 0..9} = 0..9
  /\ num(D, O, N, A, L, D) + num(G, E, R, A, L, D) = num(R, O, B, E, R, T)

AlphaWords == << <<"BALLET", 45>>, <<"CELLO", 43>>, <<"CONCERT", 74>>, <<"FLUTE", 30>>, <<"FUGUE", 50>>, <<"GLEE", 66>>,
                 <<"JAZZ", 58>>, <<"LYRE", 47>>, <<"OBOE", 53>>, <<"OPERA", 65>>, <<"POLKA", 59>>, <<"QUARTET", 50>>,
                 <<"SAXOPHONE", 134>>, <<"SCALE", 51>>, <<"SOLO", 37>>, <<"SONG", 61>>, <<"SOPRANO", 82>>, <<"THEME", 72>>,
                 <<"VIOLIN", 100>>, <<"WALTZ", 34>> >>
Letters == "ABCDEFGHIJKLMNOPQRSTUVWXYZ"
LetterIdx(ch) == CHOOSE k \in 0..25 : SubSeq(Letters, k + 1, k + 1) = ch
RECURSIVE WordSum(_, _, _)
WordSum(s, w, k) == IF k > Len(w) THEN 0 ELSE V(s, LetterIdx(SubSeq(w, k, k))) + WordSum(s, w, k + 1)
IsAlpha(s) ==
  /\ {V(s, k) : k \in 0..25} = 1..26
  /\ \A i \in 1..Len(AlphaWords) : WordSum(s, AlphaWords[i][1], 1) = AlphaWords[i][2]

---------------------------------------------------------------------------
Valid(r, s) ==
  CASE r.name = "queens"          -> IsQueens(r.args[1], s)
    [] r.name = "latin_square"    -> IsLatin(Len(r.args[1]), s, r.args[1][1]) /\ Len(s) = Len(r.args[1]) * Len(r.args[1])
    [] r.name = "latin_square_rc" -> IsLatinRC(r.args[1], s)
    [] r.name = "quasigroup"      -> IsLatinRC(r.args[1], s) /\ \A a \in 0..(r.args[1] - 1) : Cell(r.args[1], s, a, a) = a
    [] r.name = "quasigroup5"     -> IsQuasigroup5(r.args[1], s)
    [] r.name = "magic_square"    -> IsMagicSquare(r.args[1], s)
    [] r.name = "magic_sequence"  -> IsMagicSequence(r.args[1], s)
    [] r.name = "golomb"          -> IsGolomb(r.args[1], s)
    [] r.name = "golomb_bounded"  -> IsGolomb(r.args[1], s) /\ GolombLength(r.args[1], s) <= r.args[2]
    [] r.name = "bibd"            -> IsBIBD(r.args, s)
    [] r.name = "schur"           -> IsSchur(r.args[1], s)
    [] r.name = "knapsack"        -> IsKnapsack(r.args, s)
    [] r.name = "circuit"         -> IsTour(r.args[1], s) /\ Len(s) = r.args[1]
    [] r.name = "tsp"             -> IsTSP(r.args[1], s)
    [] r.name = "sts"             -> IsSTS(r.args[1], s)
    [] r.name = "sudoku"          -> IsSudoku(r.args[1], s)
    [] r.name = "donald"          -> IsDonald(s)
    [] r.name = "alpha"           -> IsAlpha(s)

\* counts of ALL objects (no symmetry breaking), from the literature; -1 = not tabulated
KnownQueens == <<1, 0, 0, 2, 10, 4, 40, 92, 352, 724>>
KnownLatin  == <<1, 2, 12, 576, 161280>>
\* number of Golomb rulers with m marks (the first at 0) and a length <= bound, by brute force over the mark sets
GolombRulers(m, bound) ==
  Cardinality({S \in SUBSET (1..bound) : Cardinality(S) = m - 1 /\
                 LET M == S \cup {0} IN \A a, b, c, d \in M : (a < b /\ c < d /\ <<a, b>> # <<c, d>>) => b - a # d - c})
KnownCount(r) ==
  CASE r.name = "golomb_bounded" /\ ~r.sb /\ r.args[2] <= 13 -> GolombRulers(r.args[1], r.args[2])
    [] r.name = "queens" /\ r.args[1] <= 10 -> KnownQueens[r.args[1]]
    [] r.name = "latin_square" /\ Len(r.args[1]) <= 5 -> KnownLatin[Len(r.args[1])]
    [] r.name = "latin_square_rc" /\ r.args[1] <= 5 -> KnownLatin[r.args[1]]
    [] r.name = "magic_square" /\ r.args[1] = 3 -> IF r.sb THEN 1 ELSE 8
    [] r.name = "magic_square" /\ r.args[1] = 4 -> IF r.sb THEN 880 ELSE 7040
    [] r.name = "magic_sequence" -> IF r.args[1] = 4 THEN 2 ELSE IF r.args[1] \in {1, 2, 3, 6} THEN 0 ELSE 1
    [] r.name = "circuit" -> Fact(r.args[1] - 1)
    [] r.name = "donald" -> 1
    [] r.name = "alpha" -> 1
    [] r.name = "schur" /\ r.args[1] >= 14 -> 0
    [] OTHER -> -1
\* satisfiability known from the literature (used when symmetry breaking hides the count); 1 yes, 0 no, -1 unknown
KnownSat(r) ==
  CASE r.name = "schur" -> IF r.args[1] <= 13 THEN 1 ELSE 0
    [] r.name = "magic_square" -> IF r.args[1] = 2 THEN 0 ELSE 1
    \* counting identities of a (v, b, r, k, lambda) design: when one fails there is no design
    [] r.name = "bibd" -> IF r.args[1] * r.args[3] # r.args[2] * r.args[4] \/ r.args[5] * (r.args[1] - 1) # r.args[3] * (r.args[4] - 1)
                          THEN 0 ELSE -1
    [] OTHER -> -1
KnownOpt(r) ==
  CASE r.name = "golomb" /\ r.args[1] <= 10 -> KnownGolomb[r.args[1]]
    [] r.name = "knapsack" /\ Len(r.args[1]) <= 14 -> KnapsackBest(r.args)
    [] r.name = "tsp" /\ Len(r.args[1]) <= 6 -> TSPBest(r.args[1])
    [] OTHER -> -1

Runs == ndJsonDeserialize(IOEnv.MODEL_RUNS)
Verdicts(r) ==
  IF r.ok # "ok" THEN (IF r.ok = "skip" THEN {} ELSE {"C20:run-failed"})
  ELSE
  (IF \E k \in 1..Len(r.sols) : ~Valid(r, r.sols[k]) THEN {"C20:invalid-object"} ELSE {})
  \cup (IF \E k, j \in 1..Len(r.sols) : k < j /\ r.sols[k] = r.sols[j] THEN {"C20:duplicated-object"} ELSE {})
  \cup (IF r.mode = "solve" /\ r.full /\ KnownCount(r) >= 0 /\ (~r.sb \/ r.name \in {"magic_square", "donald", "alpha"} \/ KnownCount(r) = 0)
           /\ r.count # KnownCount(r) THEN {"C20:count-differs-from-the-literature"} ELSE {})
  \cup (IF r.mode = "solve" /\ r.full /\ KnownSat(r) >= 0 /\ ((r.count > 0) # (KnownSat(r) = 1)) THEN {"C20:satisfiability-differs-from-the-literature"} ELSE {})
  \cup (IF r.mode # "solve" /\ KnownOpt(r) >= 0 /\ (r.none \/ r.opt # KnownOpt(r)) THEN {"C20:optimum-differs-from-the-known-optimum"} ELSE {})
  \* the runs of one instance (other configurations, symmetry breaking on/off, 1..k processes) agree
  \cup (IF r.mode = "solve" /\ r.full /\ \E k \in 1..Len(r.group) : r.group[k].full /\ r.group[k].sb = r.sb /\ r.group[k].count # r.count
        THEN {"C20:count-depends-on-the-configuration"} ELSE {})
  \cup (IF r.mode = "solve" /\ r.full /\ \E k \in 1..Len(r.group) : r.group[k].full /\ r.group[k].sb # r.sb /\ ((r.group[k].count > 0) # (r.count > 0))
        THEN {"C20:symmetry-breaking-changes-satisfiability"} ELSE {})
  \cup (IF r.mode # "solve" /\ \E k \in 1..Len(r.group) : r.group[k].none # r.none \/ (~r.none /\ r.group[k].opt # r.opt)
        THEN {"C20:optimum-depends-on-the-configuration-or-symmetry-breaking"} ELSE {})

VARIABLE i
Init == i = 1
Next == /\ i <= Len(Runs)
        /\ \A c \in Verdicts(Runs[i]) : PrintT(<<"VERDICT", Runs[i].rid, c>>)
        /\ (i = Len(Runs) => PrintT(<<"JUDGED", i>>))
        /\ i' = i + 1
Spec == Init /\ [][Next]_i
=============================================================================
