------------------------------ MODULE Triggers ------------------------------
(***************************************************************************)
(* C08, last sentence: the wake-up events a constraint DECLARES are        *)
(* sufficient.  The masks are data recorded from the real get_triggers_*   *)
(* functions; the meaning of the constraint comes from Constraints.tla.    *)
(*                                                                         *)
(* For every in-contract box B of the window that is a fixpoint of the     *)
(* contract-level propagator, and every B' inside B reached by moving only *)
(* bounds the masks do not watch (a move that instantiates a variable also *)
(* raises GROUND), the propagator re-executed on B'                        *)
(*    - must not fail,                                                     *)
(*    - for the bound-consistent algorithms, must not prune.               *)
(* Otherwise the engine, which would not wake the constraint, could stop   *)
(* at a non-fixpoint or accept a violating assignment.                     *)
(* The circuit constraints (no_sub_cycle, scc) are not bound-consistent and *)
(* may prune again (the property exempts them from "does not change a      *)
(* domain"): for them the lemma is the no-failure half only, stated on the *)
(* EXPLICIT definition of their algorithm (Constraints.tla, NoSubCycleStep *)
(* and SccCheck, which the call traces compare with the real functions):   *)
(* for every box B the algorithm accepts and leaves unchanged, and every   *)
(* B' reached from B by unwatched moves, the algorithm on B' must not      *)
(* fail.  (Pinned tree: no_sub_cycle watched GROUND only, although it      *)
(* prunes on the bounds of a path's end - an unwatched MAX change made it  *)
(* prune, instantiate, cascade and fail: repaired by 8c5d267.)             *)
(***************************************************************************)
EXTENDS Constraints, Json, IOUtils

Recs == ndJsonDeserialize(IOEnv.TRIGGER_RECS)     \* [rid, alg, n, params, masks, lo, hi]
Bit(m, b) == (m \div b) % 2 = 1
Ivs(lo, hi) == {<<a, b>> \in (lo..hi) \X (lo..hi) : a <= b}
RECURSIVE BoxesOf(_, _, _)
BoxesOf(n, lo, hi) == IF n = 0 THEN {<< >>} ELSE {<<iv>> \o b : iv \in Ivs(lo, hi), b \in BoxesOf(n - 1, lo, hi)}

\* iv2 is reachable from iv by changes the mask m does not watch
Unwatched(iv, iv2, m) ==
  /\ iv[1] <= iv2[1] /\ iv2[2] <= iv[2] /\ iv2[1] <= iv2[2]
  /\ (iv2[1] # iv[1] => ~Bit(m, 1))
  /\ (iv2[2] # iv[2] => ~Bit(m, 2))
  /\ ((iv2[1] = iv2[2] /\ iv[1] # iv[2]) => ~Bit(m, 4))
RECURSIVE SubBoxes(_, _, _)
SubBoxes(B, masks, k) ==
  IF k > Len(B) THEN {<< >>}
  ELSE {<<iv2>> \o rest : iv2 \in {x \in Ivs(B[k][1], B[k][2]) : Unwatched(B[k], x, masks[k])}, rest \in SubBoxes(B, masks, k + 1)}

Fixpoint(alg, p, B) == LET r == Ideal(alg, p, B) IN r[1] # 0 /\ r[2] = B
\* the witnesses of insufficiency (empty = sufficient on the window)
Witnesses(r) ==
  IF r.alg \in CircuitAlgs \/ r.alg = "dummy" THEN {}
  ELSE {<<B, B2>> \in {<<B, B2>> : B \in {X \in BoxesOf(r.n, r.lo, r.hi) : InContract(r.alg, r.params, X) /\ Fixpoint(r.alg, r.params, X)},
                                  B2 \in BoxesOf(r.n, r.lo, r.hi)} :
          /\ B2 \in SubBoxes(B, r.masks, 1)
          /\ InContract(r.alg, r.params, B2)
          /\ LET j == Ideal(r.alg, r.params, B2) IN j[1] = 0 \/ (r.alg \in HullAlgs /\ j[2] # B2)}

\* cheaper formulation used by the run: enumerate B, then only its unwatched sub-boxes
CircuitInsufficient(r) ==
  \E B \in BoxesOf(r.n, r.lo, r.hi) :
     /\ LET f == Ideal(r.alg, r.params, B) IN f[1] # 0 /\ f[2] = B
     /\ \E B2 \in SubBoxes(B, r.masks, 1) : Ideal(r.alg, r.params, B2)[1] = 0

Insufficient(r) ==
  IF r.alg = "dummy" THEN FALSE
  ELSE IF r.alg \in CircuitAlgs THEN CircuitInsufficient(r)
  ELSE \E B \in BoxesOf(r.n, r.lo, r.hi) :
         /\ InContract(r.alg, r.params, B) /\ Fixpoint(r.alg, r.params, B)
         /\ \E B2 \in SubBoxes(B, r.masks, 1) :
               /\ InContract(r.alg, r.params, B2)
               /\ LET j == Ideal(r.alg, r.params, B2) IN j[1] = 0 \/ (r.alg \in HullAlgs /\ j[2] # B2)

VARIABLE i
Init == i = 1
Next == /\ i <= Len(Recs)
        /\ (Insufficient(Recs[i]) => PrintT(<<"VERDICT", Recs[i].rid, "C08:declared-triggers-insufficient">>))
        /\ (i = Len(Recs) => PrintT(<<"JUDGED", i>>))
        /\ i' = i + 1
Spec == Init /\ [][Next]_i
=============================================================================
